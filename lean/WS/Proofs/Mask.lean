import WS.Model.MaskProg
import Std.Tactic.BVDecide
/-
  Helper lemmas for C17: the word-level interpreter of a well-formed mask program computes
  the byte-level specification.
-/
namespace WS.Proofs.Mask
open WS WS.Model WS.Spec

/-! ### bit-level facts -/

theorem key64_eq (k : BitVec 32) : (k.setWidth 64 <<< 32) ||| k.setWidth 64 = k ++ k := by
  apply BitVec.eq_of_getLsbD_eq
  intro i hi
  simp only [BitVec.getLsbD_or, BitVec.getLsbD_shiftLeft, BitVec.getLsbD_setWidth, BitVec.getLsbD_append]
  by_cases h : i < 32
  · simp [h]; omega
  · have h2 : i - 32 < 64 := by omega
    have := BitVec.getLsbD_of_ge k i (by omega)
    simp [h, hi, h2, this]

theorem rotr_getLsbD (k : BitVec 32) (i : Nat) (hi : i < 32) :
    (k >>> 8 ||| k <<< 24).getLsbD i = k.getLsbD ((i + 8) % 32) := by
  simp only [BitVec.getLsbD_or, BitVec.getLsbD_ushiftRight, BitVec.getLsbD_shiftLeft]
  by_cases h : i < 24
  · have h2 : (i + 8) % 32 = 8 + i := by omega
    simp [h, h2]
  · have h2 : (i + 8) % 32 = i - 24 := by omega
    have := BitVec.getLsbD_of_ge k (8 + i) (by omega)
    simp [h, h2, this, hi]

theorem keyByte_rotr8 (key : UInt32) (j : Nat) : keyByte (rotr8 key) j = keyByte key (j + 1) := by
  unfold keyByte rotr8
  congr 1
  apply BitVec.eq_of_getLsbD_eq
  intro i hi
  simp only [BitVec.getLsbD_extractLsb', hi, decide_true, Bool.true_and]
  rw [rotr_getLsbD _ _ (by omega)]
  congr 1
  omega

theorem keyByte_add4 (key : UInt32) (j : Nat) : keyByte key (j + 4) = keyByte key j := by
  unfold keyByte; simp

theorem keyByte_mod (key : UInt32) (j : Nat) : keyByte key (j % 4) = keyByte key j := by
  unfold keyByte; simp

theorem rotr8_four (key : UInt32) : rotr8 (rotr8 (rotr8 (rotr8 key))) = key := by
  cases key with | ofBitVec k =>
  unfold rotr8
  congr 1
  apply BitVec.eq_of_getLsbD_eq
  intro i hi
  simp only []
  rw [rotr_getLsbD _ _ hi, rotr_getLsbD _ _ (by omega), rotr_getLsbD _ _ (by omega),
    rotr_getLsbD _ _ (by omega)]
  congr 1
  omega

theorem rotrBytes_add4 (key : UInt32) (n : Nat) : rotrBytes key (n + 4) = rotrBytes key n := by
  induction n generalizing key with
  | zero => simp [rotrBytes, rotr8_four]
  | succ n ih =>
    have : n + 1 + 4 = (n + 4) + 1 := by omega
    rw [this]; simp only [rotrBytes]; exact ih _

theorem rotrBytes_mod (key : UInt32) (n : Nat) : rotrBytes key (n % 4) = rotrBytes key n := by
  induction n using Nat.strongRecOn with
  | _ n ih =>
    by_cases h : n < 4
    · rw [Nat.mod_eq_of_lt h]
    · have h1 : n = (n - 4) + 4 := by omega
      rw [h1, rotrBytes_add4, Nat.add_mod_right]
      exact ih (n - 4) (by omega)

theorem rotrBytes_succ (key : UInt32) (n : Nat) : rotrBytes key (n + 1) = rotr8 (rotrBytes key n) := by
  induction n generalizing key with
  | zero => rfl
  | succ n ih => simp only [rotrBytes] at *; exact ih _

theorem keyByte_rotrBytes (key : UInt32) (n j : Nat) :
    keyByte (rotrBytes key n) j = keyByte key (j + n) := by
  induction n generalizing key j with
  | zero => rfl
  | succ n ih =>
    simp only [rotrBytes]
    rw [ih, keyByte_rotr8]
    have : j + n + 1 = j + (n + 1) := by omega
    rw [this]

/-! ### word lemmas -/

theorem word64 (b0 b1 b2 b3 b4 b5 b6 b7 : UInt8) (key : UInt32) :
    store64 (load64 [b0, b1, b2, b3, b4, b5, b6, b7] ^^^ key64 key) =
      [b0 ^^^ keyByte key 0, b1 ^^^ keyByte key 1, b2 ^^^ keyByte key 2, b3 ^^^ keyByte key 3,
       b4 ^^^ keyByte key 0, b5 ^^^ keyByte key 1, b6 ^^^ keyByte key 2, b7 ^^^ keyByte key 3] := by
  cases key with | ofBitVec k =>
  cases b0 with | ofBitVec b0 =>
  cases b1 with | ofBitVec b1 =>
  cases b2 with | ofBitVec b2 =>
  cases b3 with | ofBitVec b3 =>
  cases b4 with | ofBitVec b4 =>
  cases b5 with | ofBitVec b5 =>
  cases b6 with | ofBitVec b6 =>
  cases b7 with | ofBitVec b7 =>
  simp only [store64, load64, key64, keyByte, key64_eq]
  have e (x y : BitVec 8) : (UInt8.ofBitVec x) ^^^ (UInt8.ofBitVec y) = UInt8.ofBitVec (x ^^^ y) := rfl
  simp only [e]
  refine List.cons_eq_cons.mpr ⟨congrArg _ (by bv_decide), ?_⟩
  refine List.cons_eq_cons.mpr ⟨congrArg _ (by bv_decide), ?_⟩
  refine List.cons_eq_cons.mpr ⟨congrArg _ (by bv_decide), ?_⟩
  refine List.cons_eq_cons.mpr ⟨congrArg _ (by bv_decide), ?_⟩
  refine List.cons_eq_cons.mpr ⟨congrArg _ (by bv_decide), ?_⟩
  refine List.cons_eq_cons.mpr ⟨congrArg _ (by bv_decide), ?_⟩
  refine List.cons_eq_cons.mpr ⟨congrArg _ (by bv_decide), ?_⟩
  refine List.cons_eq_cons.mpr ⟨congrArg _ (by bv_decide), rfl⟩

theorem word32 (b0 b1 b2 b3 : UInt8) (key : UInt32) :
    store32 (load32 [b0, b1, b2, b3] ^^^ key.toBitVec) =
      [b0 ^^^ keyByte key 0, b1 ^^^ keyByte key 1, b2 ^^^ keyByte key 2, b3 ^^^ keyByte key 3] := by
  cases key with | ofBitVec k =>
  cases b0 with | ofBitVec b0 =>
  cases b1 with | ofBitVec b1 =>
  cases b2 with | ofBitVec b2 =>
  cases b3 with | ofBitVec b3 =>
  simp only [store32, load32, keyByte]
  have e (x y : BitVec 8) : (UInt8.ofBitVec x) ^^^ (UInt8.ofBitVec y) = UInt8.ofBitVec (x ^^^ y) := rfl
  simp only [e]
  refine List.cons_eq_cons.mpr ⟨congrArg _ (by bv_decide), ?_⟩
  refine List.cons_eq_cons.mpr ⟨congrArg _ (by bv_decide), ?_⟩
  refine List.cons_eq_cons.mpr ⟨congrArg _ (by bv_decide), ?_⟩
  refine List.cons_eq_cons.mpr ⟨congrArg _ (by bv_decide), rfl⟩

end WS.Proofs.Mask

namespace WS.Proofs.Mask
open WS WS.Model WS.Spec

/-! ### the specification on lists -/

theorem maskFrom_length (key : UInt32) (i : Nat) (b : Bytes) : (maskFrom key i b).length = b.length := by
  induction b generalizing i with
  | nil => rfl
  | cons x xs ih => simp [maskFrom, ih]

theorem maskFrom_append (key : UInt32) (i : Nat) (a b : Bytes) :
    maskFrom key i (a ++ b) = maskFrom key i a ++ maskFrom key (i + a.length) b := by
  induction a generalizing i with
  | nil => simp [maskFrom]
  | cons x xs ih =>
    simp only [List.cons_append, maskFrom, List.length_cons, ih]
    have : i + 1 + xs.length = i + (xs.length + 1) := by omega
    rw [this]

theorem maskFrom_add4 (key : UInt32) (i : Nat) (b : Bytes) : maskFrom key (i + 4) b = maskFrom key i b := by
  induction b generalizing i with
  | nil => rfl
  | cons x xs ih =>
    simp only [maskFrom, keyByte_add4]
    have : i + 4 + 1 = (i + 1) + 4 := by omega
    rw [this, ih]

theorem maskFrom_mul4 (key : UInt32) (m : Nat) (b : Bytes) : maskFrom key (4 * m) b = maskFrom key 0 b := by
  induction m with
  | zero => rfl
  | succ m ih =>
    have : 4 * (m + 1) = 4 * m + 4 := by omega
    rw [this, maskFrom_add4, ih]

theorem maskFrom_of_mod (key : UInt32) (i : Nat) (b : Bytes) (h : i % 4 = 0) :
    maskFrom key i b = maskFrom key 0 b := by
  have : i = 4 * (i / 4) := by omega
  rw [this, maskFrom_mul4]

theorem maskFrom_rotr8 (key : UInt32) (i : Nat) (b : Bytes) :
    maskFrom (rotr8 key) i b = maskFrom key (i + 1) b := by
  induction b generalizing i with
  | nil => rfl
  | cons x xs ih => simp only [maskFrom, keyByte_rotr8, ih]

theorem maskFrom_rotrBytes (key : UInt32) (n i : Nat) (b : Bytes) :
    maskFrom (rotrBytes key n) i b = maskFrom key (i + n) b := by
  induction n generalizing key i with
  | zero => rfl
  | succ n ih =>
    simp only [rotrBytes]
    rw [ih, maskFrom_rotr8]
    have : i + n + 1 = i + (n + 1) := by omega
    rw [this]

theorem runTail_eq (b : Bytes) (key : UInt32) :
    runTail b key = (maskFrom key 0 b, rotrBytes key b.length) := by
  induction b generalizing key with
  | nil => rfl
  | cons x xs ih =>
    simp only [runTail, ih, maskFrom, List.length_cons, rotrBytes, maskFrom_rotr8]

/-! ### words -/

theorem len8 (l : Bytes) (h : l.length = 8) : ∃ b0 b1 b2 b3 b4 b5 b6 b7, l = [b0, b1, b2, b3, b4, b5, b6, b7] := by
  match l, h with
  | [b0, b1, b2, b3, b4, b5, b6, b7], _ => exact ⟨_, _, _, _, _, _, _, _, rfl⟩

theorem len4 (l : Bytes) (h : l.length = 4) : ∃ b0 b1 b2 b3, l = [b0, b1, b2, b3] := by
  match l, h with
  | [b0, b1, b2, b3], _ => exact ⟨_, _, _, _, rfl⟩

theorem maskFrom8 (key : UInt32) (b0 b1 b2 b3 b4 b5 b6 b7 : UInt8) :
    maskFrom key 0 [b0, b1, b2, b3, b4, b5, b6, b7] =
      [b0 ^^^ keyByte key 0, b1 ^^^ keyByte key 1, b2 ^^^ keyByte key 2, b3 ^^^ keyByte key 3,
       b4 ^^^ keyByte key 0, b5 ^^^ keyByte key 1, b6 ^^^ keyByte key 2, b7 ^^^ keyByte key 3] := by
  simp only [maskFrom]
  have h4 : keyByte key 4 = keyByte key 0 := keyByte_add4 key 0
  have h5 : keyByte key 5 = keyByte key 1 := keyByte_add4 key 1
  have h6 : keyByte key 6 = keyByte key 2 := keyByte_add4 key 2
  have h7 : keyByte key 7 = keyByte key 3 := keyByte_add4 key 3
  simp [h4, h5, h6, h7]

/-- a word statement placed at `pre.length` replaces exactly its bytes by their masked value. -/
theorem runWord_ok (w : WordXor) (pre m1 rest : Bytes) (key : UInt32)
    (hok : wordOk pre.length w = true) (hm : m1.length = w.width) :
    runWord w (pre ++ m1 ++ rest) key = some (pre ++ maskFrom key 0 m1 ++ rest) := by
  simp only [wordOk, Bool.and_eq_true, beq_iff_eq, Bool.or_eq_true] at hok
  obtain ⟨⟨⟨⟨hll, hsl⟩, hlh⟩, hsh⟩, hk⟩ := hok
  have hsrc : ((pre ++ m1 ++ rest).drop w.ll).take w.width = m1 := by
    rw [hll, List.append_assoc, List.drop_left, ← hm, List.take_left]
  have htk : (pre ++ m1 ++ rest).take w.sl = pre := by
    rw [hsl, List.append_assoc, List.take_left]
  have hdr : (pre ++ m1 ++ rest).drop (w.sl + w.width) = rest := by
    rw [hsl, ← hm]
    have : pre.length + m1.length = (pre ++ m1).length := by simp
    rw [this, List.drop_left]
  have hcond : w.ll ≤ w.lh ∧ w.lh ≤ (pre ++ m1 ++ rest).length ∧ w.sl ≤ w.sh ∧
      w.sh ≤ (pre ++ m1 ++ rest).length ∧ w.lh - w.ll ≥ w.width ∧ w.sh - w.sl ≥ w.width := by
    simp only [List.length_append]
    omega
  unfold runWord
  rw [if_pos hcond]
  simp only [hsrc, htk, hdr]
  rcases hk with ⟨h8, hk⟩ | ⟨h4, hk⟩
  · obtain ⟨b0, b1, b2, b3, b4, b5, b6, b7, rfl⟩ := len8 m1 (by omega)
    rw [h8, hk]
    simp only [word64, maskFrom8]
    simp
  · obtain ⟨b0, b1, b2, b3, rfl⟩ := len4 m1 (by omega)
    rw [h4, hk]
    simp only [word32, maskFrom]
    simp

theorem wordsTile_ge : ∀ (ws : List WordXor) (pos e : Nat), wordsTile pos ws = some e → pos ≤ e ∧ (pos % 4 = 0 → e % 4 = 0) := by
  intro ws
  induction ws with
  | nil => intro pos e h; simp [wordsTile] at h; subst h; exact ⟨Nat.le_refl _, id⟩
  | cons w ws ih =>
    intro pos e h
    simp only [wordsTile] at h
    split at h
    · rename_i hok
      have := ih _ _ h
      simp only [wordOk, Bool.and_eq_true, beq_iff_eq, Bool.or_eq_true] at hok
      obtain ⟨_, hk⟩ := hok
      constructor
      · omega
      · intro hp; apply this.2; rcases hk with ⟨h8, _⟩ | ⟨h4, _⟩ <;> omega
    · simp at h

theorem runWords_tile : ∀ (ws : List WordXor) (pre mid post : Bytes) (key : UInt32) (e : Nat),
    wordsTile pre.length ws = some e → pre.length % 4 = 0 → pre.length + mid.length = e →
    runWords ws (pre ++ mid ++ post) key = some (pre ++ maskFrom key 0 mid ++ post) := by
  intro ws
  induction ws with
  | nil =>
    intro pre mid post key e h _ hl
    simp [wordsTile] at h
    have : mid = [] := by
      have : mid.length = 0 := by omega
      exact List.eq_nil_of_length_eq_zero this
    subst this
    simp [runWords, maskFrom]
  | cons w ws ih =>
    intro pre mid post key e h hp hl
    simp only [wordsTile] at h
    split at h
    · rename_i hok
      have hge := wordsTile_ge _ _ _ h
      have hw : w.width % 4 = 0 ∧ w.width > 0 := by
        simp only [wordOk, Bool.and_eq_true, beq_iff_eq, Bool.or_eq_true] at hok
        obtain ⟨_, hk⟩ := hok
        rcases hk with ⟨h8, _⟩ | ⟨h4, _⟩ <;> omega
      -- split mid
      obtain ⟨m1, m2, hmid, hm1⟩ : ∃ m1 m2 : Bytes, mid = m1 ++ m2 ∧ m1.length = w.width :=
        ⟨mid.take w.width, mid.drop w.width, (List.take_append_drop _ _).symm, by
          rw [List.length_take]; omega⟩
      subst hmid
      have e1 : pre ++ (m1 ++ m2) ++ post = pre ++ m1 ++ (m2 ++ post) := by simp
      rw [e1]
      simp only [runWords]
      rw [runWord_ok w pre _ _ key hok hm1]
      simp only [Option.bind]
      have e2 : pre ++ maskFrom key 0 m1 ++ (m2 ++ post)
          = (pre ++ maskFrom key 0 m1) ++ m2 ++ post := by simp
      rw [e2]
      have hlen : (pre ++ maskFrom key 0 m1).length = pre.length + w.width := by
        simp [maskFrom_length, hm1]
      rw [ih (pre ++ maskFrom key 0 m1) m2 post key e
        (by rw [hlen]; exact h) (by rw [hlen]; omega)
        (by rw [hlen]; simp only [List.length_append] at hl; omega)]
      rw [maskFrom_append, hm1]
      rw [maskFrom_of_mod key (0 + w.width) _ (by omega)]
      simp
    · simp at h

end WS.Proofs.Mask

namespace WS.Proofs.Mask
open WS WS.Model WS.Spec

/-! ### loops and programs -/

/-- the interpreter has passed over a prefix whose length is a multiple of 4 and has masked it. -/
def SInv (orig : Bytes) (key : UInt32) (s : MState) : Prop :=
  ∃ m, m % 4 = 0 ∧ m ≤ orig.length ∧ s.done = maskFrom key 0 (orig.take m) ∧ s.b = orig.drop m ∧ s.key = key

theorem loop_inv (orig : Bytes) (key : UInt32) (n : Nat) (words : List WordXor) (adv : Nat)
    (hwf : stmtWF (.loop n words adv) = true) :
    ∀ (fuel : Nat) (s : MState), SInv orig key s →
      ∃ s', runLoop n words adv fuel s = some s' ∧ SInv orig key s' := by
  simp only [stmtWF, Bool.and_eq_true, beq_iff_eq, decide_eq_true_eq] at hwf
  obtain ⟨⟨htile, hadv⟩, hpos⟩ := hwf
  have hadv4 : adv % 4 = 0 := (wordsTile_ge _ _ _ htile).2 rfl
  intro fuel
  induction fuel with
  | zero => intro s hs; exact ⟨s, rfl, hs⟩
  | succ fuel ih =>
    intro s hs
    simp only [runLoop]
    split
    · rename_i hlen
      obtain ⟨m, hm4, hmle, hdone, hb, hkey⟩ := hs
      have hsplit : s.b = [] ++ s.b.take adv ++ s.b.drop adv := by simp
      have htl : (s.b.take adv).length = adv := by rw [List.length_take]; omega
      have hrun := runWords_tile words [] (s.b.take adv) (s.b.drop adv) s.key adv
        (by simpa using htile) (by simp) (by simp [htl])
      rw [← hsplit] at hrun
      rw [hrun]
      simp only [List.nil_append]
      have hl2 : (maskFrom s.key 0 (s.b.take adv) ++ s.b.drop adv).length ≥ adv := by
        simp [maskFrom_length, htl]
      rw [if_pos ⟨hl2, hpos⟩]
      apply ih
      have hML : (maskFrom s.key 0 (s.b.take adv)).length = adv := by simp [maskFrom_length, htl]
      generalize hM : maskFrom s.key 0 (s.b.take adv) = M at hML
      have h1 : (M ++ s.b.drop adv).take adv = M := by
        rw [← hML, List.take_left]
      have h2 : (M ++ s.b.drop adv).drop adv = s.b.drop adv := by
        rw [← hML, List.drop_left]
      have hbl : s.b.length = orig.length - m := by rw [hb, List.length_drop]
      have htm : (orig.take m).length = m := by rw [List.length_take]; omega
      refine ⟨m + adv, by omega, by omega, ?_, ?_, hkey⟩
      · simp only []
        rw [h1, hdone, ← hM, hkey, hb]
        rw [List.take_add, maskFrom_append]
        congr 1
        symm; apply maskFrom_of_mod
        rw [htm]; omega
      · simp only []
        rw [h2, hb, List.drop_drop]
    · exact ⟨s, rfl, hs⟩

mutual
theorem stmt_inv (orig : Bytes) (key : UInt32) : ∀ (st : MStmt) (s : MState),
    stmtWF st = true → SInv orig key s → ∃ s', runStmt st s = some s' ∧ SInv orig key s'
  | .ifGe n body, s, hwf, hs => by
    simp only [stmtWF] at hwf
    simp only [runStmt]
    split
    · exact stmts_inv orig key body s hwf hs
    · exact ⟨s, rfl, hs⟩
  | .loop n words adv, s, hwf, hs => by
    simp only [runStmt]
    exact loop_inv orig key n words adv hwf _ s hs
  | .once n words adv, s, hwf, hs => by
    simp only [runStmt]
    exact loop_inv orig key n words adv (by simpa [stmtWF] using hwf) 1 s hs
  | .tail, _, hwf, _ => by simp [stmtWF] at hwf
  | .unknown _, _, hwf, _ => by simp [stmtWF] at hwf
theorem stmts_inv (orig : Bytes) (key : UInt32) : ∀ (sts : List MStmt) (s : MState),
    stmtsWF sts = true → SInv orig key s → ∃ s', runStmts sts s = some s' ∧ SInv orig key s'
  | [], s, _, hs => ⟨s, rfl, hs⟩
  | st :: rest, s, hwf, hs => by
    simp only [stmtsWF, Bool.and_eq_true] at hwf
    obtain ⟨s1, h1, hs1⟩ := stmt_inv orig key st s hwf.1 hs
    obtain ⟨s2, h2, hs2⟩ := stmts_inv orig key rest s1 hwf.2 hs1
    exact ⟨s2, by simp [runStmts, h1, h2], hs2⟩
end

theorem runStmts_append (a b : List MStmt) (s : MState) :
    runStmts (a ++ b) s = (runStmts a s).bind (runStmts b) := by
  induction a generalizing s with
  | nil => simp [runStmts]
  | cons st rest ih =>
    simp only [List.cons_append, runStmts]
    cases runStmt st s with
    | none => rfl
    | some s1 => simp [ih]

/-- **every well-formed mask program computes the specification.** -/
theorem wf_correct (p : MaskProg) (hwf : wellFormed p = true) (b : Bytes) (key : UInt32) :
    runMask p b key = some (Spec.mask key b) := by
  unfold wellFormed at hwf
  split at hwf
  · rename_i revInit hrev
    have hp : p = revInit.reverse ++ [.tail] := by
      have := congrArg List.reverse hrev
      simpa using this
    obtain ⟨s1, h1, m, hm4, hmle, hdone, hb, hkey⟩ :=
      stmts_inv b key revInit.reverse { done := [], b := b, key := key } hwf
        ⟨0, rfl, Nat.zero_le _, by simp [maskFrom], by simp, rfl⟩
    unfold runMask
    rw [hp, runStmts_append, h1]
    simp only [Option.bind, runStmts, runStmt, runTail_eq, Option.map, List.append_nil]
    unfold Spec.mask
    rw [hdone, hb, hkey]
    congr 2
    · have := maskFrom_append key 0 (b.take m) (b.drop m)
      rw [List.take_append_drop] at this
      rw [this]
      congr 1
      symm; apply maskFrom_of_mod
      rw [List.length_take]; omega
    · rw [List.length_drop, ← rotrBytes_mod]
      congr 1
      omega
  · simp at hwf

end WS.Proofs.Mask

namespace WS.Proofs.Mask
open WS WS.Model WS.Spec

theorem maskFrom_congr_mod (key : UInt32) (b : Bytes) : ∀ (i j : Nat), i % 4 = j % 4 →
    maskFrom key i b = maskFrom key j b := by
  induction b with
  | nil => intros; rfl
  | cons x xs ih =>
    intro i j h
    simp only [maskFrom]
    have hk : keyByte key i = keyByte key j := by unfold keyByte; rw [h]
    rw [hk, ih (i + 1) (j + 1) (by omega)]

theorem rotrBytes_add (key : UInt32) (n m : Nat) : rotrBytes (rotrBytes key n) m = rotrBytes key (n + m) := by
  induction n generalizing key with
  | zero => simp [rotrBytes]
  | succ n ih =>
    have : n + 1 + m = (n + m) + 1 := by omega
    rw [this]; simp only [rotrBytes]; exact ih _

theorem xor_cancel (x k : UInt8) : x ^^^ k ^^^ k = x := by
  rw [UInt8.xor_assoc, UInt8.xor_self, UInt8.xor_zero]

theorem maskFrom_involutive (key : UInt32) (i : Nat) (b : Bytes) :
    maskFrom key i (maskFrom key i b) = b := by
  induction b generalizing i with
  | nil => rfl
  | cons x xs ih => simp only [maskFrom, xor_cancel, ih]

theorem maskFrom_getElem? (key : UInt32) (i : Nat) (b : Bytes) (n : Nat) :
    (maskFrom key i b)[n]? = (b[n]?).map (fun x => x ^^^ keyByte key (i + n)) := by
  induction b generalizing i n with
  | nil => simp [maskFrom]
  | cons x xs ih =>
    cases n with
    | zero => simp [maskFrom]
    | succ n =>
      simp only [maskFrom, List.getElem?_cons_succ, ih]
      have : i + 1 + n = i + (n + 1) := by omega
      rw [this]

end WS.Proofs.Mask
