import WS.Model.Frame
/-
  Helper lemmas and proofs for WS/Props/FrameCodec.lean.
-/
namespace WS.Props.FrameCodec
open WS WS.Model

/-- headers that can be put on the wire. -/
def Header.WF (h : Header) : Prop :=
  h.opcode < 16 ∧ h.len < 2 ^ 63 ∧ (h.masked = true → h.key.length = 4) ∧ (h.masked = false → h.key = [])

def Frame.WF (f : Frame) : Prop := Header.WF f.h ∧ f.payload.length = f.h.len

def encodeAll (fs : List Frame) : Bytes := (fs.map encodeFrame).flatten

/-- the tail left by cutting frame `f` after `m` of its bytes (0 < m < its encoded length). -/
def cutTail (f : Frame) (m : Nat) : Tail :=
  if m < (encodeHeader f.h).length then .shortHeader
  else .shortPayload f.h (f.payload.take (m - (encodeHeader f.h).length))

end WS.Props.FrameCodec

namespace WS.Proofs.FrameCodec
open WS WS.Model WS.Props.FrameCodec

theorem toNat_ofNat_lt (x : Nat) (h : x < 256) : (UInt8.ofNat x).toNat = x := by
  simp [UInt8.toNat_ofNat']; omega
theorem fromBE_be16 (n : Nat) (h : n < 65536) : fromBE (be16 n) 0 = n := by
  simp [fromBE, be16, UInt8.toNat_ofNat']; omega
theorem fromBE_be64 (n : Nat) (h : n < 2^64) : fromBE (be64 n) 0 = n := by
  simp [fromBE, be64, UInt8.toNat_ofNat']; omega

def b0n (fin r1 r2 r3 : Bool) (op : Nat) : Nat :=
  b2n fin 128 + b2n r1 64 + b2n r2 32 + b2n r3 16 + op % 16

theorem b0n_lt (fin r1 r2 r3 : Bool) (op : Nat) : b0n fin r1 r2 r3 op < 256 := by
  cases fin <;> cases r1 <;> cases r2 <;> cases r3 <;> simp [b0n, b2n] <;> omega

theorem b0n_dec (fin r1 r2 r3 : Bool) (op : Nat) (hop : op < 16) :
    decide (b0n fin r1 r2 r3 op ≥ 128) = fin ∧ decide (b0n fin r1 r2 r3 op / 64 % 2 = 1) = r1 ∧
    decide (b0n fin r1 r2 r3 op / 32 % 2 = 1) = r2 ∧ decide (b0n fin r1 r2 r3 op / 16 % 2 = 1) = r3 ∧
    b0n fin r1 r2 r3 op % 16 = op := by
  cases fin <;> cases r1 <;> cases r2 <;> cases r3 <;> simp [b0n, b2n] <;> omega

/-- generic form of the decoder on a two-byte-or-more stream -/
def lenRes (b1 : UInt8) (r : Bytes) : Option (Nat × Bytes) :=
  if b1.toNat % 128 < 126 then some (b1.toNat % 128, r)
  else if b1.toNat % 128 = 126 then
    (if r.length ≥ 2 then some (fromBE (r.take 2) 0, r.drop 2) else none)
  else (if r.length ≥ 8 then some (fromBE (r.take 8) 0, r.drop 8) else none)

theorem decodeHeader_cons (b1 : UInt8) (r : Bytes) (fin v1 v2 v3 : Bool) (op : Nat) (hop : op < 16) :
    decodeHeader (UInt8.ofNat (b0n fin v1 v2 v3 op) :: b1 :: r) =
      match lenRes b1 r with
      | none => .needMore
      | some (len, q) =>
        if len ≥ 2^63 then .negative
        else if b1.toNat ≥ 128 then
          (if q.length ≥ 4 then .ok ⟨fin, v1, v2, v3, op, len, true, q.take 4⟩ (q.drop 4) else .needMore)
        else .ok ⟨fin, v1, v2, v3, op, len, false, []⟩ q := by
  obtain ⟨e1, e2, e3, e4, e5⟩ := b0n_dec fin v1 v2 v3 op hop
  simp only [decodeHeader, toNat_ofNat_lt _ (b0n_lt fin v1 v2 v3 op), e1, e2, e3, e4, e5, lenRes]
  generalize (if b1.toNat % 128 < 126 then some (b1.toNat % 128, r)
        else if b1.toNat % 128 = 126 then
          (if r.length ≥ 2 then some (fromBE (r.take 2) 0, r.drop 2) else none)
        else (if r.length ≥ 8 then some (fromBE (r.take 8) 0, r.drop 8) else none) : Option (Nat × Bytes)) = lr
  rcases lr with _ | ⟨len, q⟩
  · rfl
  · by_cases hm : b1.toNat ≥ 128 <;> simp [hm]

def l7 (len : Nat) : Nat := if len > 65535 then 127 else if len > 125 then 126 else len

def lenBytes (len : Nat) : Bytes := if len > 65535 then be64 len else if len > 125 then be16 len else []

def keyPart (h : Header) : Bytes := if h.masked then h.key.take 4 else []

theorem l7_le (len : Nat) : l7 len ≤ 127 := by
  unfold l7; split
  · omega
  · split <;> omega

theorem lenBytes_length (len : Nat) :
    (lenBytes len).length = if len ≤ 125 then 0 else if len ≤ 65535 then 2 else 8 := by
  unfold lenBytes
  by_cases c1 : len > 65535
  · have : ¬ len ≤ 125 := by omega
    have : ¬ len ≤ 65535 := by omega
    simp [*, be64]
  · by_cases c2 : len > 125
    · have : ¬ len ≤ 125 := by omega
      have : len ≤ 65535 := by omega
      simp [*, be16]
    · have : len ≤ 125 := by omega
      simp [*]

theorem encodeHeader_eq (h : Header) :
    encodeHeader h = UInt8.ofNat (b0n h.fin h.rsv1 h.rsv2 h.rsv3 h.opcode) ::
      UInt8.ofNat (b2n h.masked 128 + l7 h.len) :: (lenBytes h.len ++ keyPart h) := by
  unfold encodeHeader l7 lenBytes keyPart b0n
  by_cases c1 : h.len > 65535
  · simp [c1]
  · by_cases c2 : h.len > 125
    · simp [c1, c2]
    · simp [c1, c2]

theorem b1_toNat (m : Bool) (len : Nat) :
    (UInt8.ofNat (b2n m 128 + l7 len)).toNat = b2n m 128 + l7 len := by
  apply toNat_ofNat_lt
  have := l7_le len
  cases m <;> simp [b2n] <;> omega

theorem b1_mod (m : Bool) (len : Nat) :
    (UInt8.ofNat (b2n m 128 + l7 len)).toNat % 128 = l7 len := by
  rw [b1_toNat]
  have := l7_le len
  cases m <;> simp [b2n] <;> omega

theorem b1_ge (m : Bool) (len : Nat) :
    (UInt8.ofNat (b2n m 128 + l7 len)).toNat ≥ 128 ↔ m = true := by
  rw [b1_toNat]
  have := l7_le len
  cases m <;> simp [b2n] <;> omega

theorem lenRes_full (m : Bool) (len : Nat) (hl : len < 2 ^ 64) (t : Bytes) :
    lenRes (UInt8.ofNat (b2n m 128 + l7 len)) (lenBytes len ++ t) = some (len, t) := by
  unfold lenRes
  rw [b1_mod]
  unfold l7 lenBytes
  by_cases c1 : len > 65535
  · have e : (be64 len).length = 8 := by simp [be64]
    have := fromBE_be64 len hl
    simp [c1, e, this]
  · by_cases c2 : len > 125
    · have e : (be16 len).length = 2 := by simp [be16]
      have := fromBE_be16 len (by omega)
      simp [c1, c2, e, this]
    · simp [c1, c2]; omega

theorem lenRes_short (m : Bool) (len : Nat) (t : Bytes) (ht : t.length < (lenBytes len).length) :
    lenRes (UInt8.ofNat (b2n m 128 + l7 len)) t = none := by
  unfold lenRes
  rw [b1_mod]
  rw [lenBytes_length] at ht
  unfold l7
  by_cases c1 : len > 65535
  · have : ¬ len ≤ 125 := by omega
    have : ¬ len ≤ 65535 := by omega
    simp [*] at ht
    simp [c1]; omega
  · by_cases c2 : len > 125
    · have : ¬ len ≤ 125 := by omega
      have : len ≤ 65535 := by omega
      simp [*] at ht
      simp [c1, c2]; omega
    · have : len ≤ 125 := by omega
      simp [*] at ht

theorem decode_encode (h : Header) (hwf : Header.WF h) (rest : Bytes) :
    decodeHeader (encodeHeader h ++ rest) = .ok h rest := by
  obtain ⟨hop, hlen, hk1, hk0⟩ := hwf
  rw [encodeHeader_eq]
  simp only [List.cons_append, List.append_assoc]
  rw [decodeHeader_cons _ _ _ _ _ _ _ hop, lenRes_full _ _ (by omega)]
  simp only
  rw [if_neg (by omega)]
  obtain ⟨fin, v1, v2, v3, op, len, masked, key⟩ := h
  cases masked
  · have := hk0 rfl
    simp only at this
    subst this
    rw [if_neg (by rw [b1_ge]; simp)]
    simp [keyPart]
  · have := hk1 rfl
    simp only at this
    rw [if_pos (by rw [b1_ge])]
    simp [keyPart, List.take_of_length_le, this]

theorem encode_length (h : Header) :
    (encodeHeader h).length =
      2 + (if h.len ≤ 125 then 0 else if h.len ≤ 65535 then 2 else 8) + (if h.masked then (h.key.take 4).length else 0) := by
  rw [encodeHeader_eq]
  simp only [List.length_cons, List.length_append, lenBytes_length, keyPart]
  cases h.masked <;> simp <;> omega

theorem encode_len7 (h : Header) :
    ∃ b0 b1 r, encodeHeader h = b0 :: b1 :: r ∧
      (b1.toNat % 128 = 127 ↔ 65535 < h.len) ∧ (b1.toNat % 128 = 126 ↔ (125 < h.len ∧ h.len ≤ 65535)) ∧
      (b1.toNat % 128 < 126 → b1.toNat % 128 = h.len) ∧ (b1.toNat ≥ 128 ↔ h.masked = true) := by
  refine ⟨_, _, _, encodeHeader_eq h, ?_, ?_, ?_, b1_ge _ _⟩
  all_goals (rw [b1_mod]; unfold l7; split)
  all_goals (try split)
  all_goals omega

theorem encodeHeader_length_ge (h : Header) : 2 ≤ (encodeHeader h).length := by
  rw [encode_length]; omega

theorem encodeAll_nil : encodeAll [] = [] := rfl

theorem encodeAll_cons (f : Frame) (fs : List Frame) :
    encodeAll (f :: fs) = encodeHeader f.h ++ (f.payload ++ encodeAll fs) := by
  simp [encodeAll, encodeFrame]

theorem encodeAll_length_ge (fs : List Frame) : 2 * fs.length ≤ (encodeAll fs).length := by
  induction fs with
  | nil => simp [encodeAll]
  | cons f fs ih =>
    rw [encodeAll_cons]
    have := encodeHeader_length_ge f.h
    simp only [List.length_append, List.length_cons]
    omega

theorem parseAux_append (fs : List Frame) (hwf : ∀ f ∈ fs, Frame.WF f) :
    ∀ (fuel : Nat) (t : Bytes) (acc : List Frame),
      parseFramesAux (fs.length + fuel) (encodeAll fs ++ t) acc = parseFramesAux fuel t (fs.reverse ++ acc) := by
  induction fs with
  | nil => intro fuel t acc; simp [encodeAll]
  | cons f fs ih =>
    intro fuel t acc
    have hf : Frame.WF f := hwf f (by simp)
    have hfs : ∀ g ∈ fs, Frame.WF g := fun g hg => hwf g (by simp [hg])
    obtain ⟨hh, hp⟩ := hf
    have e : (f :: fs).length + fuel = (fs.length + fuel) + 1 := by simp; omega
    rw [e, encodeAll_cons]
    have hne : (encodeHeader f.h ++ (f.payload ++ encodeAll fs) ++ t).isEmpty = false := by
      have := encodeHeader_length_ge f.h
      cases hc : encodeHeader f.h with
      | nil => rw [hc] at this; simp at this
      | cons a b => simp
    rw [parseFramesAux, hne]
    simp only [Bool.false_eq_true, if_false]
    have e2 : encodeHeader f.h ++ (f.payload ++ encodeAll fs) ++ t
        = encodeHeader f.h ++ (f.payload ++ (encodeAll fs ++ t)) := by simp
    rw [e2, decode_encode f.h hh]
    simp only
    rw [if_pos (by simp; omega)]
    rw [← hp, List.drop_left, List.take_left, ih hfs]
    simp

theorem parseAux_nil (fuel : Nat) (acc : List Frame) :
    parseFramesAux (fuel + 1) [] acc = (acc.reverse, .clean) := by
  simp [parseFramesAux]

theorem parse_encodeAll (fs : List Frame) (hwf : ∀ f ∈ fs, Frame.WF f) :
    parseFrames (encodeAll fs) = (fs, .clean) := by
  unfold parseFrames
  have hl := encodeAll_length_ge fs
  have e : (encodeAll fs).length + 1 = fs.length + (((encodeAll fs).length - fs.length) + 1) := by omega
  have := parseAux_append fs hwf (((encodeAll fs).length - fs.length) + 1) [] []
  rw [List.append_nil] at this
  rw [e, this, parseAux_nil]
  simp

/-- a strict prefix of an encoded header is reported as an incomplete header. -/
theorem decode_short (h : Header) (hwf : Header.WF h) (m : Nat) (hm : m < (encodeHeader h).length) :
    decodeHeader ((encodeHeader h).take m) = .needMore := by
  obtain ⟨hop, hlen, hk1, hk0⟩ := hwf
  rw [encodeHeader_eq] at hm ⊢
  match m with
  | 0 => rfl
  | 1 => rfl
  | m + 2 =>
    simp only [List.take_succ_cons]
    rw [decodeHeader_cons _ _ _ _ _ _ _ hop]
    by_cases c : m < (lenBytes h.len).length
    · rw [lenRes_short]
      simp only [List.length_take, List.length_append]
      omega
    · have e : (lenBytes h.len ++ keyPart h).take m
          = lenBytes h.len ++ (keyPart h).take (m - (lenBytes h.len).length) := by
        rw [List.take_append]
        rw [List.take_of_length_le (by omega)]
      rw [e, lenRes_full _ _ (by omega)]
      simp only
      rw [if_neg (by omega)]
      simp only [List.length_cons, List.length_append] at hm
      cases hmk : h.masked with
      | false =>
        simp [keyPart, hmk] at hm
        omega
      | true =>
        rw [if_pos (by rw [b1_ge])]
        rw [if_neg]
        simp only [List.length_take]
        have : (keyPart h).length ≤ 4 := by simp [keyPart, hmk]; omega
        omega

theorem parseAux_cut (f : Frame) (m : Nat) (hf : Frame.WF f) (hm0 : 0 < m)
    (hm : m < (encodeFrame f).length) (fuel : Nat) (acc : List Frame) :
    parseFramesAux (fuel + 1) ((encodeFrame f).take m) acc = (acc.reverse, cutTail f m) := by
  obtain ⟨hh, hp⟩ := hf
  have hge := encodeHeader_length_ge f.h
  unfold encodeFrame at hm ⊢
  simp only [List.length_append] at hm
  have hne : ((encodeHeader f.h ++ f.payload).take m).isEmpty = false := by
    cases hc : encodeHeader f.h with
    | nil => rw [hc] at hge; simp at hge
    | cons a b =>
      cases m with
      | zero => omega
      | succ m => simp
  rw [parseFramesAux, hne]
  simp only [Bool.false_eq_true, if_false]
  unfold cutTail
  by_cases c : m < (encodeHeader f.h).length
  · rw [List.take_append_of_le_length (by omega), decode_short f.h hh m c, if_pos c]
  · rw [if_neg c]
    have e : (encodeHeader f.h ++ f.payload).take m
        = encodeHeader f.h ++ f.payload.take (m - (encodeHeader f.h).length) := by
      rw [List.take_append, List.take_of_length_le (by omega)]
    rw [e, decode_encode f.h hh]
    simp only
    rw [if_neg]
    simp only [List.length_take]
    omega

theorem parse_cut (pre : List Frame) (f : Frame) (m : Nat)
    (hpre : ∀ g ∈ pre, Frame.WF g) (hf : Frame.WF f) (hm0 : 0 < m) (hm : m < (encodeFrame f).length) :
    parseFrames (encodeAll pre ++ (encodeFrame f).take m) = (pre, cutTail f m) := by
  unfold parseFrames
  have hl := encodeAll_length_ge pre
  have hlt : ((encodeFrame f).take m).length = m := by
    rw [List.length_take]; omega
  have e : (encodeAll pre ++ (encodeFrame f).take m).length + 1
      = pre.length + (((encodeAll pre).length - pre.length + m) + 1) := by
    rw [List.length_append, hlt]; omega
  rw [e, parseAux_append pre hpre, parseAux_cut f m hf hm0 hm]
  simp

end WS.Proofs.FrameCodec
