import WS.Spec.ReadSpec
/-
  Helper lemmas about the one-step functions of the reader model (`stopIn`, `dataStep`,
  `finishMsg`, `takeLimited`) and a generic invariant principle for `runReader`.
-/
namespace WS.Proofs.ReaderInv
open WS WS.Model WS.Spec

variable (inf : Inflate) (cfg : RCfg) (limits : List Int)

/-! ### takeLimited -/

theorem takeLimited_neg (n : Int) (d : Bytes) (hn : n < 0) : takeLimited n d = (d, n, false) := by
  unfold takeLimited
  simp [hn]

theorem takeLimited_lt (n : Int) (d : Bytes) (hn : 0 ≤ n) (hd : (d.length : Int) < n) :
    takeLimited n d = (d, n - d.length, false) := by
  unfold takeLimited
  have : ¬ n < 0 := by omega
  simp [this, hd]

theorem takeLimited_ge (n : Int) (d : Bytes) (hn : 0 ≤ n) (hd : n ≤ (d.length : Int)) :
    takeLimited n d = (d.take n.toNat, 0, true) := by
  unfold takeLimited
  have h1 : ¬ n < 0 := by omega
  have h2 : ¬ (d.length : Int) < n := by omega
  simp [h1, h2]

theorem takeLimited_cases (n : Int) (d : Bytes) :
    (n < 0 ∧ takeLimited n d = (d, n, false)) ∨
    (0 ≤ n ∧ (d.length : Int) < n ∧ takeLimited n d = (d, n - d.length, false)) ∨
    (0 ≤ n ∧ n ≤ (d.length : Int) ∧ takeLimited n d = (d.take n.toNat, 0, true)) := by
  by_cases h1 : n < 0
  · exact Or.inl ⟨h1, takeLimited_neg n d h1⟩
  · by_cases h2 : (d.length : Int) < n
    · exact Or.inr (Or.inl ⟨by omega, h2, takeLimited_lt n d (by omega) h2⟩)
    · exact Or.inr (Or.inr ⟨by omega, by omega, takeLimited_ge n d (by omega) (by omega)⟩)

/-! ### headerCheck -/

theorem headerCheck_some (h : Header) (why : Stop) (hc : headerCheck cfg h = some why) :
    why = .proto ∨ why = .protoNoClose := by
  unfold headerCheck at hc
  repeat' split at hc
  all_goals simp_all

theorem headerCheck_none_data (h : Header) (hc : headerCheck cfg h = none)
    (h1 : (h.opcode == opPing) = false) (h2 : (h.opcode == opPong) = false)
    (h3 : (h.opcode == opClose) = false) : isData h.opcode = true := by
  unfold headerCheck at hc
  have hctl : isControl h.opcode = false := by
    unfold isControl; simp [h1, h2, h3]
  repeat' split at hc
  all_goals simp_all

/-! ### events of the one-step functions -/

theorem stopReplies_cases (why : Stop) :
    stopReplies why = [] ∨ ∃ p, stopReplies why = [.reply opClose p] := by
  cases why <;> simp [stopReplies]

/-- shape of `stopIn`: some Close replies followed by exactly one failure event. -/
theorem stopIn_shape (st : RState) (why : Stop) :
    ∃ final, stopIn inf cfg limits st why = stopReplies why ++ [final] ∧
      (final = .fail why ∨ ∃ typ d amb, final = .partialMsg typ d why amb) := by
  unfold stopIn
  split
  · exact ⟨_, rfl, Or.inl rfl⟩
  · exact ⟨_, rfl, Or.inr ⟨_, _, _, rfl⟩⟩
  · exact ⟨_, rfl, Or.inr ⟨_, _, _, rfl⟩⟩


/-! ### shapes of `dataStep` and `finishMsg` -/

theorem dataStep_cases (st : RState) (h : Header) (d : Bytes) :
    dataStep inf cfg limits st h d = (stopIn inf cfg limits st .proto, none) ∨
    (∃ st', dataStep inf cfg limits st h d = ([], some st')) ∨
    (∃ typ out, dataStep inf cfg limits st h d =
      (stopReplies .limit ++ [.partialMsg typ out .limit false], none)) := by
  unfold dataStep
  split
  · split
    · exact Or.inl rfl
    · split
      · exact Or.inr (Or.inl ⟨_, rfl⟩)
      · dsimp only
        split
        · exact Or.inr (Or.inr ⟨_, _, rfl⟩)
        · exact Or.inr (Or.inl ⟨_, rfl⟩)
  · split
    · exact Or.inl rfl
    · dsimp only
      split
      · exact Or.inr (Or.inr ⟨_, _, rfl⟩)
      · exact Or.inr (Or.inl ⟨_, rfl⟩)
  · split
    · exact Or.inl rfl
    · exact Or.inr (Or.inl ⟨_, rfl⟩)

theorem finishMsg_cases (st : RState) :
    finishMsg inf cfg limits st = ([], some st) ∨
    (∃ typ out st', finishMsg inf cfg limits st = ([.msg typ out], some st')) ∨
    (∃ typ out why, finishMsg inf cfg limits st =
      (stopReplies why ++ [.partialMsg typ out why false], none)) := by
  unfold finishMsg
  split
  · exact Or.inl rfl
  · exact Or.inr (Or.inl ⟨_, _, _, rfl⟩)
  · dsimp only
    split
    · exact Or.inr (Or.inr ⟨_, _, .limit, rfl⟩)
    · split
      · exact Or.inr (Or.inr ⟨_, _, .inflate, rfl⟩)
      · exact Or.inr (Or.inl ⟨_, _, _, rfl⟩)

/-! ### custom induction principle following the case structure of `runReader` -/

theorem runReader_induct (motive : RState → List Frame → List Ev → Prop)
    (stop : ∀ st fs why, why ≠ .limit → why ≠ .inflate → motive st fs (stopIn inf cfg limits st why))
    (tailStop : ∀ st h d evs, dataStep inf cfg limits st h d = (evs, none) → motive st [] evs)
    (tailGo : ∀ st h d evs st', dataStep inf cfg limits st h d = (evs, some st') →
      motive st [] (evs ++ stopIn inf cfg limits st' .io))
    (ping : ∀ st f rest r, (f.h.opcode == opPing) = true → motive st rest r →
      motive st (f :: rest) (.reply opPong f.data :: r))
    (pong : ∀ st f rest r, (f.h.opcode == opPing) = false → isData f.h.opcode = false → motive st rest r →
      motive st (f :: rest) r)
    (dataStop : ∀ st f rest evs, (f.h.opcode == opPing) = false → isData f.h.opcode = true →
      dataStep inf cfg limits st f.h f.data = (evs, none) → motive st (f :: rest) evs)
    (finStop : ∀ st f rest evs st' evs2, (f.h.opcode == opPing) = false → isData f.h.opcode = true →
      dataStep inf cfg limits st f.h f.data = (evs, some st') → f.h.fin = true →
      finishMsg inf cfg limits st' = (evs2, none) → motive st (f :: rest) (evs ++ evs2))
    (finGo : ∀ st f rest evs st' evs2 st'' r, (f.h.opcode == opPing) = false → isData f.h.opcode = true →
      dataStep inf cfg limits st f.h f.data = (evs, some st') → f.h.fin = true →
      finishMsg inf cfg limits st' = (evs2, some st'') → motive st'' rest r →
      motive st (f :: rest) (evs ++ evs2 ++ r))
    (dataGo : ∀ st f rest evs st' r, (f.h.opcode == opPing) = false → isData f.h.opcode = true →
      dataStep inf cfg limits st f.h f.data = (evs, some st') → f.h.fin = false →
      motive st' rest r → motive st (f :: rest) (evs ++ r)) :
    ∀ fs st tl, motive st fs (runReader inf cfg limits st fs tl) := by
  intro fs
  induction fs with
  | nil =>
    intro st tl
    cases tl with
    | clean => rw [runReader]; exact stop _ _ _ (by simp) (by simp)
    | shortHeader => rw [runReader]; exact stop _ _ _ (by simp) (by simp)
    | negative => rw [runReader]; exact stop _ _ _ (by simp) (by simp)
    | shortPayload h avail =>
      rw [runReader]
      split
      · next why hc =>
        rcases headerCheck_some cfg h why hc with rfl | rfl <;> exact stop _ _ _ (by simp) (by simp)
      · split
        · exact stop _ _ _ (by simp) (by simp)
        · generalize (if h.masked = true then xorKey h.key avail else avail) = d
          dsimp only
          split
          · next evs hd => exact tailStop _ _ _ _ hd
          · next evs st' hd => exact tailGo _ _ _ _ _ hd
  | cons f rest ih =>
    intro st tl
    rw [runReader]
    split
    · next why hc =>
      rcases headerCheck_some cfg f.h why hc with rfl | rfl <;> exact stop _ _ _ (by simp) (by simp)
    · next hc =>
      split
      · next hp => exact ping _ _ _ _ hp (ih _ _)
      · next hp =>
        have hp : (f.h.opcode == opPing) = false := by simpa using hp
        split
        · next hq =>
          refine pong _ _ _ _ hp ?_ (ih _ _)
          have : f.h.opcode = opPong := by simpa using hq
          rw [this]; decide
        · next hq =>
          have hq : (f.h.opcode == opPong) = false := by simpa using hq
          split
          · split <;> exact stop _ _ _ (by simp) (by simp)
          · next hcl =>
            have hcl : (f.h.opcode == opClose) = false := by simpa using hcl
            have hdat := headerCheck_none_data cfg f.h hc hp hq hcl
            split
            · next evs hd => exact dataStop _ _ _ _ hp hdat hd
            · next evs st' hd =>
              split
              · next hfin =>
                split
                · next evs2 hf => exact finStop _ _ _ _ _ _ hp hdat hd hfin hf
                · next evs2 st'' hf => exact finGo _ _ _ _ _ _ _ _ hp hdat hd hfin hf (ih _ _)
              · next hfin =>
                exact dataGo _ _ _ _ _ _ hp hdat hd (by simpa using hfin) (ih _ _)


/-- events that are neither a complete message nor a Pong. -/
def Quiet (ev : Ev) : Prop :=
  (∃ p, ev = .reply opClose p) ∨ (∃ w, ev = .fail w) ∨ (∃ t d w a, ev = .partialMsg t d w a)

theorem quiet_stopReplies (why : Stop) : ∀ ev ∈ stopReplies why, Quiet ev := by
  intro ev hev
  rcases stopReplies_cases why with h | ⟨p, h⟩
  · rw [h] at hev; cases hev
  · rw [h] at hev
    simp only [List.mem_singleton] at hev
    exact Or.inl ⟨p, hev⟩

theorem stopIn_quiet (st : RState) (why : Stop) : ∀ ev ∈ stopIn inf cfg limits st why, Quiet ev := by
  intro ev hev
  obtain ⟨final, heq, hfin⟩ := stopIn_shape inf cfg limits st why
  rw [heq, List.mem_append, List.mem_singleton] at hev
  rcases hev with hev | rfl
  · exact quiet_stopReplies why ev hev
  · rcases hfin with rfl | ⟨t, d, a, rfl⟩
    · exact Or.inr (Or.inl ⟨_, rfl⟩)
    · exact Or.inr (Or.inr ⟨_, _, _, _, rfl⟩)

theorem quiet_stop_partial (why : Stop) (typ : Nat) (out : Bytes) (amb : Bool) :
    ∀ ev ∈ stopReplies why ++ [.partialMsg typ out why amb], Quiet ev := by
  intro ev hev
  rw [List.mem_append, List.mem_singleton] at hev
  rcases hev with hev | rfl
  · exact quiet_stopReplies why ev hev
  · exact Or.inr (Or.inr ⟨_, _, _, _, rfl⟩)

theorem dataStep_quiet (st : RState) (h : Header) (d : Bytes) :
    ∀ ev ∈ (dataStep inf cfg limits st h d).1, Quiet ev := by
  rcases dataStep_cases inf cfg limits st h d with h | ⟨st', h⟩ | ⟨typ, out, h⟩ <;> rw [h]
  · exact stopIn_quiet inf cfg limits st .proto
  · intro ev hev; cases hev
  · exact quiet_stop_partial _ _ _ _

theorem dataStep_some_nil (st : RState) (h : Header) (d : Bytes) (evs : List Ev) (st' : RState)
    (hd : dataStep inf cfg limits st h d = (evs, some st')) : evs = [] := by
  rcases dataStep_cases inf cfg limits st h d with h | ⟨st', h⟩ | ⟨typ, out, h⟩ <;> rw [h] at hd
  · cases hd
  · simp only [Prod.mk.injEq] at hd; exact hd.1.symm
  · cases hd

theorem finishMsg_none_quiet (st : RState) (evs : List Ev)
    (hf : finishMsg inf cfg limits st = (evs, none)) : ∀ ev ∈ evs, Quiet ev := by
  rcases finishMsg_cases inf cfg limits st with h | ⟨typ, out, st', h⟩ | ⟨typ, out, why, h⟩ <;> rw [h] at hf
  · cases hf
  · cases hf
  · simp only [Prod.mk.injEq] at hf
    rw [← hf.1]
    exact quiet_stop_partial _ _ _ _

theorem finishMsg_some (st : RState) (evs : List Ev) (st' : RState)
    (hf : finishMsg inf cfg limits st = (evs, some st')) : evs = [] ∨ ∃ typ out, evs = [.msg typ out] := by
  rcases finishMsg_cases inf cfg limits st with h | ⟨typ, out, st', h⟩ | ⟨typ, out, why, h⟩ <;> rw [h] at hf
  · simp only [Prod.mk.injEq] at hf; exact Or.inl hf.1.symm
  · simp only [Prod.mk.injEq] at hf; exact Or.inr ⟨_, _, hf.1.symm⟩
  · cases hf

theorem quiet_not_msg (ev : Ev) (h : Quiet ev) : isMsg ev = false := by
  rcases h with ⟨p, rfl⟩ | ⟨w, rfl⟩ | ⟨t, d, w, a, rfl⟩ <;> rfl

theorem quiet_failure_exists (l : List Ev) (typ : Nat) (out : Bytes) (why : Stop) (amb : Bool) :
    ∃ ev ∈ l ++ [.partialMsg typ out why amb], isFailure ev = true :=
  ⟨.partialMsg typ out why amb, by simp, rfl⟩

theorem filter_isMsg_quiet (l : List Ev) (h : ∀ ev ∈ l, Quiet ev) : l.filter isMsg = [] := by
  rw [List.filter_eq_nil_iff]
  intro ev hev
  simp [quiet_not_msg ev (h ev hev)]

theorem stopIn_failure (st : RState) (why : Stop) :
    ∃ ev ∈ stopIn inf cfg limits st why, isFailure ev = true := by
  obtain ⟨final, heq, hfin⟩ := stopIn_shape inf cfg limits st why
  refine ⟨final, by rw [heq]; simp, ?_⟩
  rcases hfin with rfl | ⟨t, d, a, rfl⟩ <;> rfl

/-- generic invariant principle: `I` is a state invariant, `P` holds of every event. -/
theorem runReader_forall (P : Ev → Prop) (I : RState → Prop)
    (hpong : ∀ d, P (.reply opPong d))
    (hstop : ∀ st why, I st → why ≠ .limit → why ≠ .inflate → ∀ ev ∈ stopIn inf cfg limits st why, P ev)
    (hdata : ∀ st h d evs o, I st → dataStep inf cfg limits st h d = (evs, o) →
      (∀ ev ∈ evs, P ev) ∧ ∀ st', o = some st' → I st')
    (hfin : ∀ st evs o, I st → finishMsg inf cfg limits st = (evs, o) →
      (∀ ev ∈ evs, P ev) ∧ ∀ st', o = some st' → I st') :
    ∀ fs st tl, I st → ∀ ev ∈ runReader inf cfg limits st fs tl, P ev := by
  refine runReader_induct inf cfg limits (fun st _ out => I st → ∀ ev ∈ out, P ev)
    ?_ ?_ ?_ ?_ ?_ ?_ ?_ ?_ ?_
  · intro st _ why h1 h2 hI
    exact hstop st why hI h1 h2
  · intro st h d evs hd hI
    exact (hdata st h d evs none hI hd).1
  · intro st h d evs st' hd hI ev hev
    have := hdata st h d evs _ hI hd
    rw [List.mem_append] at hev
    rcases hev with hev | hev
    · exact this.1 ev hev
    · exact hstop st' .io (this.2 st' rfl) (by simp) (by simp) ev hev
  · intro st f rest r _ ih hI ev hev
    rw [List.mem_cons] at hev
    rcases hev with rfl | hev
    · exact hpong _
    · exact ih hI ev hev
  · intro st f rest r _ _ ih hI
    exact ih hI
  · intro st f rest evs _ _ hd hI
    exact (hdata st _ _ evs none hI hd).1
  · intro st f rest evs st' evs2 _ _ hd _ hf hI ev hev
    have h1 := hdata st _ _ evs _ hI hd
    have h2 := hfin st' evs2 _ (h1.2 st' rfl) hf
    rw [List.mem_append] at hev
    rcases hev with hev | hev
    · exact h1.1 ev hev
    · exact h2.1 ev hev
  · intro st f rest evs st' evs2 st'' r _ _ hd _ hf ih hI ev hev
    have h1 := hdata st _ _ evs _ hI hd
    have h2 := hfin st' evs2 _ (h1.2 st' rfl) hf
    rw [List.mem_append, List.mem_append] at hev
    rcases hev with (hev | hev) | hev
    · exact h1.1 ev hev
    · exact h2.1 ev hev
    · exact ih (h2.2 st'' rfl) ev hev
  · intro st f rest evs st' r _ _ hd _ ih hI ev hev
    have h1 := hdata st _ _ evs _ hI hd
    rw [List.mem_append] at hev
    rcases hev with hev | hev
    · exact h1.1 ev hev
    · exact ih (h1.2 st' rfl) ev hev


theorem limitFor_nil (i : Nat) : limitFor cfg [] i = cfg.limit := by
  simp [limitFor]

theorem allowance_nat (L : Nat) : allowance (L : Int) = (L : Int) + 1 := by
  unfold allowance
  have : ¬ ((L : Int) < 0) := by omega
  simp [this]

theorem allowance_neg (l : Int) (h : l < 0) : allowance l = -1 := by
  unfold allowance
  simp [h]

theorem takeLimited_length (n : Int) (d : Bytes) (hn : 0 ≤ n) : ((takeLimited n d).1.length : Int) ≤ n := by
  rcases takeLimited_cases n d with ⟨h, _⟩ | ⟨_, h, e⟩ | ⟨_, h, e⟩
  · omega
  · rw [e]; simp only; omega
  · rw [e]; simp only [List.length_take]; omega

/-! ### read limit `L ≥ 0` -/

def LimInv (L : Nat) (st : RState) : Prop :=
  ∀ typ acc n, st.mode = .plain typ acc n → 0 < n ∧ (acc.length : Int) + n = L + 1

def LimP (L : Nat) (ev : Ev) : Prop :=
  (∀ typ d, ev = .msg typ d → d.length ≤ L) ∧
  (∀ typ d why amb, ev = .partialMsg typ d why amb → d.length ≤ L + 1)

theorem limP_reply (L : Nat) (op : Nat) (p : Bytes) : LimP L (.reply op p) :=
  ⟨fun _ _ h => (nomatch h), fun _ _ _ _ h => (nomatch h)⟩

theorem limP_fail (L : Nat) (w : Stop) : LimP L (.fail w) :=
  ⟨fun _ _ h => (nomatch h), fun _ _ _ _ h => (nomatch h)⟩

theorem limP_partial (L : Nat) (typ : Nat) (d : Bytes) (w : Stop) (a : Bool) (h : d.length ≤ L + 1) :
    LimP L (.partialMsg typ d w a) :=
  ⟨fun _ _ h => (nomatch h), fun _ _ _ _ e => by cases e; exact h⟩

theorem limP_msg (L : Nat) (typ : Nat) (d : Bytes) (h : d.length ≤ L) : LimP L (.msg typ d) :=
  ⟨fun _ _ e => (by cases e; exact h), fun _ _ _ _ e => (nomatch e)⟩

theorem limP_stopReplies (L : Nat) (why : Stop) : ∀ ev ∈ stopReplies why, LimP L ev := by
  intro ev hev
  rcases stopReplies_cases why with h | ⟨p, h⟩ <;> rw [h] at hev
  · cases hev
  · simp only [List.mem_singleton] at hev; subst hev; exact limP_reply _ _ _

theorem limP_stop_partial (L : Nat) (why : Stop) (typ : Nat) (d : Bytes) (a : Bool) (h : d.length ≤ L + 1) :
    ∀ ev ∈ stopReplies why ++ [.partialMsg typ d why a], LimP L ev := by
  intro ev hev
  rw [List.mem_append, List.mem_singleton] at hev
  rcases hev with hev | rfl
  · exact limP_stopReplies L why ev hev
  · exact limP_partial _ _ _ _ _ h

theorem lim_stop (L : Nat) (hL : cfg.limit = L) (st : RState) (why : Stop) (hI : LimInv L st) :
    ∀ ev ∈ stopIn inf cfg [] st why, LimP L ev := by
  unfold stopIn
  split
  · intro ev hev
    rw [List.mem_append, List.mem_singleton] at hev
    rcases hev with hev | rfl
    · exact limP_stopReplies L why ev hev
    · exact limP_fail _ _
  · next typ acc n hm =>
    have := hI typ acc n hm
    exact limP_stop_partial L why typ acc false (by omega)
  · next typ z hm =>
    dsimp only
    apply limP_stop_partial
    rw [limitFor_nil, hL, allowance_nat]
    have := takeLimited_length ((L : Int) + 1) (inf st.dict z).plain (by omega)
    omega

theorem lim_data (L : Nat) (hL : cfg.limit = L) (st : RState) (h : Header) (d : Bytes) (evs : List Ev)
    (o : Option RState) (hI : LimInv L st) (hd : dataStep inf cfg [] st h d = (evs, o)) :
    (∀ ev ∈ evs, LimP L ev) ∧ ∀ st', o = some st' → LimInv L st' := by
  unfold dataStep at hd
  split at hd
  · next hm =>
    split at hd
    · cases hd
      exact ⟨lim_stop inf cfg L hL st .proto hI, fun _ h => (nomatch h)⟩
    · split at hd
      · cases hd
        refine ⟨fun _ h => (nomatch h), ?_⟩
        intro st' e; cases e
        intro typ acc n hm'; cases hm'
      · rw [limitFor_nil, hL, allowance_nat] at hd
        dsimp only at hd
        rcases takeLimited_cases ((L : Int) + 1) d with ⟨hn, _⟩ | ⟨_, hlt, e⟩ | ⟨_, hge, e⟩
        · omega
        · rw [e] at hd
          simp only [Bool.false_eq_true, if_false] at hd
          cases hd
          refine ⟨fun _ h => (nomatch h), ?_⟩
          intro st' e; cases e
          intro typ acc n hm'; cases hm'
          constructor <;> omega
        · rw [e] at hd
          simp only [if_true] at hd
          cases hd
          refine ⟨?_, fun _ h => (nomatch h)⟩
          apply limP_stop_partial
          simp only [List.length_take]; omega
  · next typ acc n hm =>
    have hinv := hI typ acc n hm
    split at hd
    · cases hd
      exact ⟨lim_stop inf cfg L hL st .proto hI, fun _ h => (nomatch h)⟩
    · dsimp only at hd
      rcases takeLimited_cases n d with ⟨hn, _⟩ | ⟨_, hlt, e⟩ | ⟨_, hge, e⟩
      · omega
      · rw [e] at hd
        simp only [Bool.false_eq_true, if_false] at hd
        cases hd
        refine ⟨fun _ h => (nomatch h), ?_⟩
        intro st' e; cases e
        intro typ' acc' n' hm'; cases hm'
        simp only [List.length_append]
        constructor <;> omega
      · rw [e] at hd
        simp only [if_true] at hd
        cases hd
        refine ⟨?_, fun _ h => (nomatch h)⟩
        apply limP_stop_partial
        simp only [List.length_append, List.length_take]; omega
  · next typ z hm =>
    split at hd
    · cases hd
      exact ⟨lim_stop inf cfg L hL st .proto hI, fun _ h => (nomatch h)⟩
    · cases hd
      refine ⟨fun _ h => (nomatch h), ?_⟩
      intro st' e; cases e
      intro typ acc n hm'; cases hm'

theorem lim_fin (L : Nat) (hL : cfg.limit = L) (st : RState) (evs : List Ev)
    (o : Option RState) (hI : LimInv L st) (hf : finishMsg inf cfg [] st = (evs, o)) :
    (∀ ev ∈ evs, LimP L ev) ∧ ∀ st', o = some st' → LimInv L st' := by
  unfold finishMsg at hf
  split at hf
  · cases hf
    exact ⟨fun _ h => (nomatch h), fun st' e => by cases e; exact hI⟩
  · next typ acc n hm =>
    have hinv := hI typ acc n hm
    cases hf
    refine ⟨?_, ?_⟩
    · intro ev hev
      simp only [List.mem_singleton] at hev; subst hev
      exact limP_msg _ _ _ (by omega)
    · intro st' e; cases e
      intro typ acc n hm'; cases hm'
  · next typ z hm =>
    rw [limitFor_nil, hL, allowance_nat] at hf
    dsimp only at hf
    rcases takeLimited_cases ((L : Int) + 1) (inf st.dict (z ++ deflateTail)).plain with
      ⟨hn, _⟩ | ⟨_, hlt, e⟩ | ⟨_, hge, e⟩
    · omega
    · rw [e] at hf
      simp only [Bool.false_eq_true, if_false] at hf
      split at hf
      · cases hf
        refine ⟨?_, fun _ h => (nomatch h)⟩
        intro ev hev
        simp only [List.mem_singleton] at hev; subst hev
        exact limP_partial _ _ _ _ _ (by omega)
      · cases hf
        refine ⟨?_, ?_⟩
        · intro ev hev
          simp only [List.mem_singleton] at hev; subst hev
          exact limP_msg _ _ _ (by omega)
        · intro st' e; cases e
          intro typ acc n hm'; cases hm'
    · rw [e] at hf
      simp only [if_true] at hf
      cases hf
      refine ⟨?_, fun _ h => (nomatch h)⟩
      apply limP_stop_partial
      simp only [List.length_take]; omega

theorem lim_run (L : Nat) (hL : cfg.limit = L) (fs : List Frame) (st : RState) (tl : Tail)
    (hI : LimInv L st) : ∀ ev ∈ runReader inf cfg [] st fs tl, LimP L ev :=
  runReader_forall inf cfg [] (LimP L) (LimInv L) (fun _ => limP_reply _ _ _)
    (fun st why hI _ _ => lim_stop inf cfg L hL st why hI)
    (fun st h d evs o hI hd => lim_data inf cfg L hL st h d evs o hI hd)
    (fun st evs o hI hf => lim_fin inf cfg L hL st evs o hI hf) fs st tl hI


/-! ### unlimited (`cfg.limit < 0`) -/

def UnlInv (st : RState) : Prop := ∀ typ acc n, st.mode = .plain typ acc n → n < 0

def UnlP (ev : Ev) : Prop := (∀ typ d amb, ev ≠ .partialMsg typ d .limit amb) ∧ ev ≠ .fail .limit

theorem unlP_reply (op : Nat) (p : Bytes) : UnlP (.reply op p) :=
  ⟨fun _ _ _ h => (nomatch h), fun h => (nomatch h)⟩

theorem unlP_msg (typ : Nat) (p : Bytes) : UnlP (.msg typ p) :=
  ⟨fun _ _ _ h => (nomatch h), fun h => (nomatch h)⟩

theorem unlP_fail (w : Stop) (hw : w ≠ .limit) : UnlP (.fail w) :=
  ⟨fun _ _ _ h => (nomatch h), fun h => by cases h; exact hw rfl⟩

theorem unlP_partial (typ : Nat) (d : Bytes) (w : Stop) (a : Bool) (hw : w ≠ .limit) :
    UnlP (.partialMsg typ d w a) :=
  ⟨fun _ _ _ h => by cases h; exact hw rfl, fun h => (nomatch h)⟩

theorem unlP_stopReplies (why : Stop) : ∀ ev ∈ stopReplies why, UnlP ev := by
  intro ev hev
  rcases stopReplies_cases why with h | ⟨p, h⟩ <;> rw [h] at hev
  · cases hev
  · simp only [List.mem_singleton] at hev; subst hev; exact unlP_reply _ _

theorem unl_stop (st : RState) (why : Stop) (hw : why ≠ .limit) :
    ∀ ev ∈ stopIn inf cfg limits st why, UnlP ev := by
  intro ev hev
  obtain ⟨final, heq, hfin⟩ := stopIn_shape inf cfg limits st why
  rw [heq, List.mem_append, List.mem_singleton] at hev
  rcases hev with hev | rfl
  · exact unlP_stopReplies why ev hev
  · rcases hfin with rfl | ⟨t, d, a, rfl⟩
    · exact unlP_fail _ hw
    · exact unlP_partial _ _ _ _ hw

theorem unl_data (hL : cfg.limit < 0) (st : RState) (h : Header) (d : Bytes) (evs : List Ev)
    (o : Option RState) (hI : UnlInv st) (hd : dataStep inf cfg [] st h d = (evs, o)) :
    (∀ ev ∈ evs, UnlP ev) ∧ ∀ st', o = some st' → UnlInv st' := by
  unfold dataStep at hd
  split at hd
  · next hm =>
    split at hd
    · cases hd
      exact ⟨unl_stop inf cfg [] st .proto (by simp), fun _ h => (nomatch h)⟩
    · split at hd
      · cases hd
        refine ⟨fun _ h => (nomatch h), ?_⟩
        intro st' e; cases e
        intro typ acc n hm'; cases hm'
      · rw [limitFor_nil, allowance_neg _ hL, takeLimited_neg _ _ (by omega)] at hd
        simp only [Bool.false_eq_true, if_false] at hd
        cases hd
        refine ⟨fun _ h => (nomatch h), ?_⟩
        intro st' e; cases e
        intro typ acc n hm'; cases hm'
        omega
  · next typ acc n hm =>
    have hinv := hI typ acc n hm
    split at hd
    · cases hd
      exact ⟨unl_stop inf cfg [] st .proto (by simp), fun _ h => (nomatch h)⟩
    · rw [takeLimited_neg _ _ hinv] at hd
      simp only [Bool.false_eq_true, if_false] at hd
      cases hd
      refine ⟨fun _ h => (nomatch h), ?_⟩
      intro st' e; cases e
      intro typ' acc' n' hm'; cases hm'
      exact hinv
  · next typ z hm =>
    split at hd
    · cases hd
      exact ⟨unl_stop inf cfg [] st .proto (by simp), fun _ h => (nomatch h)⟩
    · cases hd
      refine ⟨fun _ h => (nomatch h), ?_⟩
      intro st' e; cases e
      intro typ acc n hm'; cases hm'

theorem unl_fin (hL : cfg.limit < 0) (st : RState) (evs : List Ev)
    (o : Option RState) (hI : UnlInv st) (hf : finishMsg inf cfg [] st = (evs, o)) :
    (∀ ev ∈ evs, UnlP ev) ∧ ∀ st', o = some st' → UnlInv st' := by
  unfold finishMsg at hf
  split at hf
  · cases hf
    exact ⟨fun _ h => (nomatch h), fun st' e => by cases e; exact hI⟩
  · next typ acc n hm =>
    cases hf
    refine ⟨?_, ?_⟩
    · intro ev hev
      simp only [List.mem_singleton] at hev; subst hev
      exact unlP_msg _ _
    · intro st' e; cases e
      intro typ acc n hm'; cases hm'
  · next typ z hm =>
    rw [limitFor_nil, allowance_neg _ hL] at hf
    dsimp only at hf
    rw [takeLimited_neg _ _ (by omega)] at hf
    simp only [Bool.false_eq_true, if_false] at hf
    split at hf
    · cases hf
      refine ⟨?_, fun _ h => (nomatch h)⟩
      intro ev hev
      simp only [List.mem_singleton] at hev; subst hev
      exact unlP_partial _ _ _ _ (by simp)
    · cases hf
      refine ⟨?_, ?_⟩
      · intro ev hev
        simp only [List.mem_singleton] at hev; subst hev
        exact unlP_msg _ _
      · intro st' e; cases e
        intro typ acc n hm'; cases hm'

theorem unl_run (hL : cfg.limit < 0) (fs : List Frame) (st : RState) (tl : Tail)
    (hI : UnlInv st) : ∀ ev ∈ runReader inf cfg [] st fs tl, UnlP ev :=
  runReader_forall inf cfg [] UnlP UnlInv (fun _ => unlP_reply _ _)
    (fun st why _ hw _ => unl_stop inf cfg [] st why hw)
    (fun st h d evs o hI hd => unl_data inf cfg hL st h d evs o hI hd)
    (fun st evs o hI hf => unl_fin inf cfg hL st evs o hI hf) fs st tl hI


theorem dataStep_none_failure (st : RState) (h : Header) (d : Bytes) (evs : List Ev)
    (hd : dataStep inf cfg limits st h d = (evs, none)) : ∃ ev ∈ evs, isFailure ev = true := by
  rcases dataStep_cases inf cfg limits st h d with h | ⟨st', h⟩ | ⟨typ, out, h⟩ <;> rw [h] at hd
  · cases hd; exact stopIn_failure inf cfg limits st .proto
  · cases hd
  · cases hd; exact quiet_failure_exists _ _ _ _ _

/-! ### unmasking and prefixes -/

theorem xorKeyFrom_take (key : Bytes) (i : Nat) (p : Bytes) (k : Nat) :
    xorKeyFrom key i (p.take k) = (xorKeyFrom key i p).take k := by
  induction p generalizing i k with
  | nil => simp [xorKeyFrom]
  | cons x xs ih =>
    cases k with
    | zero => simp [xorKeyFrom]
    | succ k => simp [xorKeyFrom, ih]

theorem xorKeyFrom_length (key : Bytes) (i : Nat) (p : Bytes) :
    (xorKeyFrom key i p).length = p.length := by
  induction p generalizing i with
  | nil => rfl
  | cons x xs ih => simp [xorKeyFrom, ih]

/-! ### reference semantics: append -/

theorem specRun_append (p : Pending) (a b : List Frame) :
    specRun p (a ++ b) =
      ((specRun p a).1 ++ (specRun (specRun p a).2 b).1, (specRun (specRun p a).2 b).2) := by
  induction a generalizing p with
  | nil => simp [specRun]
  | cons f a ih => simp [specRun, ih]

theorem validSeq_append (L : Int) (p : Pending) (a b : List Frame)
    (hv : ValidSeq cfg L p (a ++ b)) :
    ValidSeq cfg L p a ∧ ValidSeq cfg L (specRun p a).2 b := by
  induction a generalizing p with
  | nil => exact ⟨trivial, hv⟩
  | cons f a ih =>
    obtain ⟨h1, h2, h3, h4, h5⟩ := hv
    obtain ⟨i1, i2⟩ := ih _ h5
    exact ⟨⟨h1, h2, h3, h4, i1⟩, i2⟩

/-! ### data frames that fit the limit -/

theorem takeLimited_fit (n : Int) (d : Bytes) (h : n < 0 ∨ (d.length : Int) < n) :
    ∃ n', takeLimited n d = (d, n', false) := by
  rcases takeLimited_cases n d with ⟨_, e⟩ | ⟨_, _, e⟩ | ⟨_, _, e⟩
  · exact ⟨_, e⟩
  · exact ⟨_, e⟩
  · omega

theorem dataStep_idle_fit (st : RState) (h : Header) (d : Bytes) (hm : st.mode = .idle)
    (hop : (h.opcode == opCont) = false) (hr : h.rsv1 = false)
    (hfit : allowance (limitFor cfg limits st.idx) < 0 ∨
      (d.length : Int) < allowance (limitFor cfg limits st.idx)) :
    ∃ n', dataStep inf cfg limits st h d =
      ([], some { mode := .plain h.opcode d n', dict := st.dict, idx := st.idx + 1 }) := by
  obtain ⟨n', e⟩ := takeLimited_fit _ d hfit
  refine ⟨n', ?_⟩
  unfold dataStep
  rw [hm]
  simp only [hop, hr, e, Bool.false_eq_true, if_false]

theorem dataStep_plain_fit (st : RState) (h : Header) (d : Bytes) (typ : Nat) (acc : Bytes) (n : Int)
    (hm : st.mode = .plain typ acc n) (hop : h.opcode = opCont)
    (hfit : n < 0 ∨ (d.length : Int) < n) :
    ∃ n', dataStep inf cfg limits st h d =
      ([], some { mode := .plain typ (acc ++ d) n', dict := st.dict, idx := st.idx }) := by
  obtain ⟨n', e⟩ := takeLimited_fit _ d hfit
  refine ⟨n', ?_⟩
  unfold dataStep
  rw [hm]
  have : (h.opcode != opCont) = false := by rw [hop]; decide
  simp only [this, e, Bool.false_eq_true, if_false]

theorem stopIn_stateOf_io (L : Int) (dict : Bytes) (idx : Nat) (q : Pending) :
    stopIn inf cfg limits (stateOf L dict idx q) .io =
      [match q with
       | none => .fail .io
       | some (typ, acc) => .partialMsg typ acc .io false] := by
  cases q with
  | none => rfl
  | some ta => obtain ⟨typ, acc⟩ := ta; rfl

end WS.Proofs.ReaderInv
