import WS.Model.NetConn
/-
  Helper lemmas for C18 (model of netconn.go).
-/
namespace WS.Proofs.NetConn
open WS WS.Model.NetConn

/-- one `read` (any fuel, any `k`) keeps the type invariant, and the bytes it returns are exactly
what leaves `pending`. -/
theorem read_inv (k : Nat) : ∀ (fuel : Nat) (s : State), (∀ m ∈ s.rest, m.typ = s.msgType) →
    (read k fuel s).2.msgType = s.msgType ∧ (∀ m ∈ (read k fuel s).2.rest, m.typ = s.msgType) ∧
    pending s = bytesOf [(read k fuel s).1] ++ pending (read k fuel s).2 := by
  intro fuel
  induction fuel with
  | zero => intro s h; simpa [Model.NetConn.read, bytesOf] using h
  | succ n ih =>
    intro s h
    obtain ⟨mt, cur, rest, fin, eofed, failed, c⟩ := s
    cases failed
    case true => simpa [Model.NetConn.read, bytesOf] using h
    cases eofed
    case true => simpa [Model.NetConn.read, bytesOf] using h
    cases cur with
    | some d =>
      by_cases hd : d = []
      · subst hd
        have := ih { msgType := mt, cur := none, rest := rest, fin := fin, eofed := false,
                     failed := false, close1003 := c } h
        simpa [Model.NetConn.read, pending] using this
      · have hd' : d.isEmpty = false := by cases d <;> simp_all
        simp [Model.NetConn.read, hd', bytesOf, pending]
        exact ⟨h, by rw [← List.append_assoc, List.take_append_drop]⟩
    | none =>
      cases rest with
      | nil =>
        cases fin with
        | otherErr => simp [Model.NetConn.read, bytesOf, pending]
        | closeErr code =>
          by_cases hc : code = 1000 ∨ code = 1001
          · simp [Model.NetConn.read, hc, bytesOf, pending]
          · simp [Model.NetConn.read, hc, bytesOf, pending]
      | cons m ms =>
        have hm : m.typ = mt := h m (by simp)
        have hms : ∀ x ∈ ms, x.typ = mt := fun x hx => h x (by simp [hx])
        have := ih { msgType := mt, cur := some m.data, rest := ms, fin := fin, eofed := false,
                     failed := false, close1003 := c } hms
        simpa [Model.NetConn.read, hm, pending] using this

/-- the number of loop iterations `read` needs before it can return data. -/
def need (s : State) : Nat := 2 * s.rest.length + s.cur.isSome.toNat + 1

/-- with enough fuel a read returns at least one byte while bytes remain. -/
theorem read_data (k : Nat) (hk : 1 ≤ k) : ∀ (fuel : Nat) (s : State), s.failed = false → s.eofed = false →
    (∀ m ∈ s.rest, m.typ = s.msgType) → pending s ≠ [] → need s ≤ fuel →
    ∃ b, (read k fuel s).1 = .data b ∧ b ≠ [] ∧ b.length ≤ k := by
  intro fuel
  induction fuel with
  | zero => intro s _ _ _ _ hn; simp [need] at hn
  | succ n ih =>
    intro s hf he h hp hn
    obtain ⟨mt, cur, rest, fin, eofed, failed, c⟩ := s
    simp only at hf he h
    subst hf he
    cases cur with
    | some d =>
      by_cases hd : d = []
      · subst hd
        have := ih { msgType := mt, cur := none, rest := rest, fin := fin, eofed := false,
                     failed := false, close1003 := c } rfl rfl h (by simpa [pending] using hp)
                     (by simp [need] at hn ⊢; omega)
        simpa [Model.NetConn.read] using this
      · have hd' : d.isEmpty = false := by cases d <;> simp_all
        refine ⟨d.take k, by simp [Model.NetConn.read, hd'], ?_, ?_⟩
        · cases d with
          | nil => exact absurd rfl hd
          | cons x xs =>
            cases k with
            | zero => omega
            | succ k => simp
        · simp [List.length_take]; omega
    | none =>
      cases rest with
      | nil => simp [pending] at hp
      | cons m ms =>
        have hm : m.typ = mt := h m (by simp)
        have hms : ∀ x ∈ ms, x.typ = mt := fun x hx => h x (by simp [hx])
        have := ih { msgType := mt, cur := some m.data, rest := ms, fin := fin, eofed := false,
                     failed := false, close1003 := c } rfl rfl hms (by simpa [pending] using hp)
                     (by simp [need] at hn ⊢; omega)
        simpa [Model.NetConn.read, hm] using this

/-- a sequence of reads returns exactly the bytes that leave `pending`. -/
theorem reads_inv : ∀ (ks : List Nat) (s : State), (∀ m ∈ s.rest, m.typ = s.msgType) →
    pending s = bytesOf (reads ks s).1 ++ pending (reads ks s).2 := by
  intro ks
  induction ks with
  | nil => intro s _; simp [reads, bytesOf]
  | cons k ks ih =>
    intro s h
    obtain ⟨h1, h2, h3⟩ : (readN s k).2.msgType = s.msgType ∧ (∀ m ∈ (readN s k).2.rest, m.typ = s.msgType) ∧
        pending s = bytesOf [(readN s k).1] ++ pending (readN s k).2 := by
      unfold readN; exact read_inv k _ s h
    have h2' : ∀ m ∈ (readN s k).2.rest, m.typ = (readN s k).2.msgType := by
      intro m hm; rw [show (readN s k).2.msgType = s.msgType from h1]; exact h2 m hm
    have := ih (readN s k).2 h2'
    show pending s = bytesOf ((readN s k).1 :: (reads ks (readN s k).2).1) ++ pending (reads ks (readN s k).2).2
    rw [show pending s = bytesOf [(readN s k).1] ++ pending (readN s k).2 from h3, this]
    cases (readN s k).1 <;> simp [bytesOf]

end WS.Proofs.NetConn
