import WS.Model.Close
/-
  Helper lemmas for C06 (close payloads): the range characterisation of validWireCloseCode,
  the big-endian 16-bit round trip and parseClosePayload ∘ closePayload.
-/
namespace WS.Proofs.Close
open WS WS.Model

/-- validWireCloseCode as plain linear arithmetic. -/
theorem validWire_arith (code : Int) :
    validWireCloseCode code = true ↔
      ((1000 ≤ code ∧ code ≤ 1014 ∧ code ≠ 1004 ∧ code ≠ 1005 ∧ code ≠ 1006) ∨
        (3000 ≤ code ∧ code ≤ 4999)) := by
  unfold validWireCloseCode
  split
  · constructor
    · intro h; cases h
    · intro h; omega
  · split
    · constructor
      · intro _; omega
      · intro _; rfl
    · split
      · constructor
        · intro _; omega
        · intro _; rfl
      · constructor
        · intro h; cases h
        · intro h; omega

theorem validWire_range (code : Int) (h : validWireCloseCode code = true) :
    1000 ≤ code ∧ code ≤ 4999 := by
  have := (validWire_arith code).1 h
  omega

theorem be16_toNat (n : Nat) (h : n < 65536) :
    (UInt8.ofNat (n / 256)).toNat * 256 + (UInt8.ofNat (n % 256)).toNat = n := by
  rw [UInt8.toNat_ofNat', UInt8.toNat_ofNat']
  omega

theorem closePayload_eq (code : Int) (reason : Bytes) :
    closePayload code reason =
      UInt8.ofNat ((code % 65536).toNat / 256) :: UInt8.ofNat ((code % 65536).toNat % 256) :: reason := by
  simp [closePayload, be16]

theorem closePayload_length (code : Int) (reason : Bytes) :
    (closePayload code reason).length = 2 + reason.length := by
  rw [closePayload_eq]
  simp only [List.length_cons]
  omega

/-- a valid code survives marshalling and parsing. -/
theorem parse_closePayload (code : Int) (reason : Bytes) (h : validWireCloseCode code = true) :
    parseClosePayload (closePayload code reason) = .ok code reason := by
  have hr := validWire_range code h
  have hn : (code % 65536).toNat = code.toNat := by omega
  have hlt : code.toNat < 65536 := by omega
  have hback : ((code.toNat : Nat) : Int) = code := by omega
  rw [closePayload_eq, hn]
  unfold parseClosePayload
  simp only [be16_toNat code.toNat hlt, hback, h, if_true]

end WS.Proofs.Close
