import WS.Model.WsJson
/-
  Proofs for C19: the Lean JSON codec round trip.
-/
namespace WS.Props.C19
open WS WS.Model WS.Spec WS.Model.WsJson

/-- strings within the codec's domain: printable ASCII and the control characters Go escapes. -/
def strOK (s : List Char) : Prop := ∀ c ∈ s, c.toNat < 127

mutual
def JOK : J → Prop
  | .null => True
  | .bool _ => True
  | .num _ => True
  | .str s => strOK s
  | .arr l => JsOK l
  | .obj kvs => KVsOK kvs
def JsOK : List J → Prop
  | [] => True
  | v :: rest => JOK v ∧ JsOK rest
def KVsOK : List (List Char × J) → Prop
  | [] => True
  | (k, v) :: rest => strOK k ∧ JOK v ∧ KVsOK rest
end

end WS.Props.C19

namespace WS.Proofs.WsJson
open WS WS.Model WS.Spec WS.Model.WsJson WS.Props.C19

/-! ### strings -/

theorem hexV_hexDig : ∀ n, n < 16 → hexV (hexDig n) = some n := by decide

theorem char_eq_of_toNat {c : Char} {n : Nat} (h : c.toNat = n) : c = Char.ofNat n := by
  rw [← h, Char.ofNat_toNat]

/-- one (escaped) character is consumed per unit of fuel. -/
theorem parseStrBody_esc (c : Char) (hc : c.toNat < 127) (fuel : Nat) (r acc : List Char) :
    parseStrBody (fuel + 1) (escChar c ++ r) acc = parseStrBody fuel r (c :: acc) := by
  unfold escChar
  by_cases h1 : c = '"'
  · subst h1; simp [parseStrBody]
  by_cases h2 : c = '\\'
  · subst h2; simp [parseStrBody]
  by_cases h3 : c = '\n'
  · subst h3; simp [parseStrBody]
  by_cases h4 : c = '\r'
  · subst h4; simp [parseStrBody]
  by_cases h5 : c = '\t'
  · subst h5; simp [parseStrBody]
  by_cases h6 : (c.toNat < 32 || c == '<' || c == '>' || c == '&') = true
  · simp only [beq_iff_eq, h1, h2, h3, h4, h5, h6, if_false]
    have hlt : c.toNat / 16 < 16 := by omega
    have hlt2 : c.toNat % 16 < 16 := by omega
    have e0 : hexV '0' = some 0 := by decide
    simp [parseStrBody, hexV_hexDig _ hlt, hexV_hexDig _ hlt2, e0]
    have : c.toNat / 16 * 16 + c.toNat % 16 = c.toNat := by omega
    rw [this, Char.ofNat_toNat]
  · simp only [beq_iff_eq, h1, h2, h3, h4, h5, if_false]
    rw [if_neg h6]
    have h7 : ¬ c.toNat < 32 := by
      intro h; apply h6; simp [h]
    simp [parseStrBody, h1, h2, h7]

theorem parseStrBody_enc (s : List Char) (hs : strOK s) :
    ∀ (fuel : Nat) (rest acc : List Char), s.length < fuel →
      parseStrBody fuel (s.flatMap escChar ++ '"' :: rest) acc = some (acc.reverse ++ s, rest) := by
  induction s with
  | nil =>
    intro fuel rest acc hf
    cases fuel with
    | zero => omega
    | succ fuel => simp [parseStrBody]
  | cons c s ih =>
    intro fuel rest acc hf
    cases fuel with
    | zero => omega
    | succ fuel =>
      have hc : c.toNat < 127 := hs c (by simp)
      have hs' : strOK s := fun d hd => hs d (by simp [hd])
      rw [List.flatMap_cons, List.append_assoc, parseStrBody_esc c hc, ih hs' fuel rest (c :: acc) (by simpa using hf)]
      simp

theorem encStr_eq (s : List Char) : encStr s = '"' :: (s.flatMap escChar ++ ['"']) := by
  simp [encStr]

theorem flatMap_esc_length (s : List Char) : s.length ≤ (s.flatMap escChar).length := by
  induction s with
  | nil => simp
  | cons c s ih =>
    have : 1 ≤ (escChar c).length := by
      unfold escChar; (repeat' split) <;> simp
    simp only [List.flatMap_cons, List.length_append, List.length_cons]; omega

/-! ### numbers -/

def isDigit (c : Char) : Prop := '0' ≤ c ∧ c ≤ '9'

theorem digit_props : ∀ d, d < 10 →
    ('0' ≤ Char.ofNat (48 + d) ∧ Char.ofNat (48 + d) ≤ '9') ∧ (Char.ofNat (48 + d)).toNat - 48 = d := by
  decide

theorem parseDigits_stop (rest : List Char) (hr : ∀ c ∈ rest.head?, ¬ ('0' ≤ c ∧ c ≤ '9')) (a k : Nat) :
    parseDigits rest a k = (a, k, rest) := by
  cases rest with
  | nil => simp [parseDigits]
  | cons c cs =>
    have := hr c (by simp)
    simp [parseDigits, this]

theorem parseDigits_natDigits : ∀ (f n : Nat), n < f → ∀ (rest : List Char) (k : Nat),
    parseDigits (natDigits f n ++ rest) 0 k = parseDigits rest n (k + (natDigits f n).length) := by
  intro f
  induction f with
  | zero => intro n h; omega
  | succ f ih =>
    intro n hn rest k
    unfold natDigits
    by_cases h10 : n < 10
    · have hd := digit_props n h10
      simp [h10, parseDigits, hd.1, hd.2]
    · have hd := digit_props (n % 10) (Nat.mod_lt _ (by omega))
      have hlt : n / 10 < f := by omega
      simp only [h10, if_false, List.append_assoc, List.singleton_append]
      rw [ih (n / 10) hlt]
      simp only [parseDigits, hd.1, hd.2, and_self, if_true, List.length_append, List.length_cons,
        List.length_nil]
      have : n / 10 * 10 + n % 10 = n := by omega
      rw [this]
      rfl

theorem natDigits_head : ∀ (f n : Nat), n < f →
    ∃ d ds, d < 10 ∧ natDigits f n = Char.ofNat (48 + d) :: ds := by
  intro f
  induction f with
  | zero => intro n h; omega
  | succ f ih =>
    intro n hn
    unfold natDigits
    by_cases h10 : n < 10
    · exact ⟨n, [], h10, by simp [h10]⟩
    · obtain ⟨d, ds, hd, he⟩ := ih (n / 10) (by omega)
      exact ⟨d, ds ++ [Char.ofNat (48 + n % 10)], hd, by simp [h10, he]⟩

theorem skipWs_cons (c : Char) (cs : List Char)
    (h : c ≠ ' ' ∧ c ≠ '\n' ∧ c ≠ '\t' ∧ c ≠ '\r') : skipWs (c :: cs) = c :: cs := by
  simp [skipWs, h.1, h.2.1, h.2.2.1, h.2.2.2]

theorem digit_notspecial : ∀ d, d < 10 →
    let c := Char.ofNat (48 + d)
    c ≠ ' ' ∧ c ≠ '\n' ∧ c ≠ '\t' ∧ c ≠ '\r' ∧ c ≠ 'n' ∧ c ≠ 't' ∧ c ≠ 'f' ∧ c ≠ '"' ∧ c ≠ '[' ∧ c ≠ '{' ∧ c ≠ '-'
      ∧ c ≠ ']' ∧ c ≠ '}' := by
  decide

theorem parseJ_int (n : Int) (rest : List Char) (hr : ∀ c ∈ rest.head?, ¬ ('0' ≤ c ∧ c ≤ '9')) (fuel : Nat) :
    parseJ (fuel + 1) (encInt n ++ rest) = some (.num n, rest) := by
  unfold encInt
  by_cases hn : n < 0
  · simp only [hn, if_true, List.cons_append]
    rw [parseJ, skipWs_cons _ _ (by decide)]
    simp only [parseDigits_natDigits _ _ (Nat.lt_succ_self _), parseDigits_stop rest hr]
    obtain ⟨d, ds, _, he⟩ := natDigits_head (n.natAbs + 1) n.natAbs (Nat.lt_succ_self _)
    simp [he]
    omega
  · simp only [hn, if_false]
    obtain ⟨d, ds, hd, he⟩ := natDigits_head (n.natAbs + 1) n.natAbs (Nat.lt_succ_self _)
    have hns := digit_notspecial d hd
    have hdp := digit_props d hd
    have hpd := parseDigits_natDigits _ _ (Nat.lt_succ_self n.natAbs) rest 0
    rw [parseDigits_stop rest hr, he] at hpd
    rw [parseJ, he, List.cons_append, skipWs_cons _ _ ⟨hns.1, hns.2.1, hns.2.2.1, hns.2.2.2.1⟩]
    obtain ⟨-, -, -, -, a1, a2, a3, a4, a5, a6, a7, -, -⟩ := hns
    split
    case h_8 c r heq =>
      injection heq with e1 e2
      subst e1 e2
      rw [List.cons_append] at hpd
      rw [if_pos hdp.1, hpd]
      simp
      omega
    all_goals
      rename_i heq
      first
        | (injection heq with e1 e2
           first | exact absurd e1 a1 | exact absurd e1 a2 | exact absurd e1 a3 | exact absurd e1 a4
                 | exact absurd e1 a5 | exact absurd e1 a6 | exact absurd e1 a7)
        | cases heq

/-! ### values -/

/-- characters an encoded value can start with: not white space, not a closing bracket. -/
def startOK (c : Char) : Prop :=
  c ≠ ' ' ∧ c ≠ '\n' ∧ c ≠ '\t' ∧ c ≠ '\r' ∧ c ≠ ']' ∧ c ≠ '}'

theorem skipWs_start {c : Char} (h : startOK c) (cs : List Char) : skipWs (c :: cs) = c :: cs :=
  skipWs_cons c cs ⟨h.1, h.2.1, h.2.2.1, h.2.2.2.1⟩

theorem startOK_of (c : Char) (h : (c != ' ' && c != '\n' && c != '\t' && c != '\r' && c != ']' && c != '}') = true) :
    startOK c := by
  simpa [startOK, and_assoc] using h

theorem encJ_head (v : J) : ∃ c cs, encJ v = c :: cs ∧ startOK c := by
  cases v with
  | null => exact ⟨'n', ['u', 'l', 'l'], by simp [encJ], startOK_of _ (by decide)⟩
  | bool b =>
    cases b
    · exact ⟨'f', ['a', 'l', 's', 'e'], by simp [encJ], startOK_of _ (by decide)⟩
    · exact ⟨'t', ['r', 'u', 'e'], by simp [encJ], startOK_of _ (by decide)⟩
  | num n =>
    by_cases hn : n < 0
    · exact ⟨'-', natDigits (n.natAbs + 1) n.natAbs, by simp [encJ, encInt, hn], startOK_of _ (by decide)⟩
    · obtain ⟨d, ds, hd, he⟩ := natDigits_head (n.natAbs + 1) n.natAbs (Nat.lt_succ_self _)
      have h := digit_notspecial d hd
      exact ⟨_, ds, by simp [encJ, encInt, hn, he], h.1, h.2.1, h.2.2.1, h.2.2.2.1,
        h.2.2.2.2.2.2.2.2.2.2.2.1, h.2.2.2.2.2.2.2.2.2.2.2.2⟩
  | str s => exact ⟨'"', s.flatMap escChar ++ ['"'], by simp [encJ, encStr_eq], startOK_of _ (by decide)⟩
  | arr l => exact ⟨'[', encArr l ++ [']'], by simp [encJ], startOK_of _ (by decide)⟩
  | obj l => exact ⟨'{', encObj l ++ ['}'], by simp [encJ], startOK_of _ (by decide)⟩

theorem encArr_cons_head (v : J) (l : List J) : ∃ c cs, encArr (v :: l) = c :: cs ∧ startOK c := by
  obtain ⟨c, cs, he, hc⟩ := encJ_head v
  cases l with
  | nil => exact ⟨c, cs, by simp [encArr, he], hc⟩
  | cons w l => exact ⟨c, cs ++ [','] ++ encArr (w :: l), by simp [encArr, he], hc⟩

theorem encObj_cons_head (kv : List Char × J) (l : List (List Char × J)) :
    ∃ cs, encObj (kv :: l) = '"' :: cs := by
  obtain ⟨k, v⟩ := kv
  cases l with
  | nil => exact ⟨k.flatMap escChar ++ ['"'] ++ [':'] ++ encJ v, by simp [encObj, encStr_eq]⟩
  | cons w l =>
    exact ⟨k.flatMap escChar ++ ['"'] ++ [':'] ++ encJ v ++ [','] ++ encObj (w :: l), by simp [encObj, encStr_eq]⟩

theorem parseStr_full (s : List Char) (hs : strOK s) (rest : List Char) :
    parseStrBody ((s.flatMap escChar ++ '"' :: rest).length + 1) (s.flatMap escChar ++ '"' :: rest) [] =
      some (s, rest) := by
  have := flatMap_esc_length s
  rw [parseStrBody_enc s hs _ rest [] (by simp only [List.length_append, List.length_cons]; omega)]
  simp

theorem notDigit_head (c : Char) (rest : List Char) (hc : ¬ ('0' ≤ c ∧ c ≤ '9')) :
    ∀ d ∈ (c :: rest).head?, ¬ ('0' ≤ d ∧ d ≤ '9') := by
  intro d hd
  simp at hd
  subst hd
  exact hc

mutual
theorem parseJ_enc : ∀ (v : J), JOK v → ∀ (fuel : Nat) (rest : List Char), (encJ v).length < fuel →
    (∀ c ∈ rest.head?, ¬ ('0' ≤ c ∧ c ≤ '9')) → parseJ fuel (encJ v ++ rest) = some (v, rest)
  | .null, _, fuel, rest, hf, _ => by
    cases fuel with
    | zero => omega
    | succ f => simp [encJ, parseJ, skipWs]
  | .bool true, _, fuel, rest, hf, _ => by
    cases fuel with
    | zero => omega
    | succ f => simp [encJ, parseJ, skipWs]
  | .bool false, _, fuel, rest, hf, _ => by
    cases fuel with
    | zero => omega
    | succ f => simp [encJ, parseJ, skipWs]
  | .num n, _, fuel, rest, hf, hr => by
    cases fuel with
    | zero => omega
    | succ f => rw [encJ]; exact parseJ_int n rest hr f
  | .str s, h, fuel, rest, hf, _ => by
    cases fuel with
    | zero => omega
    | succ f =>
      have hs : strOK s := by simpa [JOK] using h
      rw [encJ, encStr_eq, parseJ, List.cons_append, skipWs_cons _ _ (by decide)]
      simp only [List.append_assoc, List.singleton_append]
      rw [parseStr_full s hs rest]
      rfl
  | .arr l, h, fuel, rest, hf, _ => by
    cases fuel with
    | zero => omega
    | succ f =>
      have hl : JsOK l := by simpa [JOK] using h
      rw [encJ] at hf
      have ih := fun hne => parseArr_enc l hne hl f rest
        (by simp only [List.length_append, List.length_cons, List.length_nil] at hf; omega)
      rw [encJ, parseJ]
      simp only [List.append_assoc, List.cons_append, List.nil_append]
      rw [skipWs_cons _ _ (by decide)]
      simp only []
      cases l with
      | nil => simp [encArr, skipWs]
      | cons v l' =>
        obtain ⟨c, cs, he, hc⟩ := encArr_cons_head v l'
        have hsk : skipWs (encArr (v :: l') ++ ']' :: rest) = encArr (v :: l') ++ ']' :: rest := by
          rw [he]; exact skipWs_start hc _
        rw [hsk]
        split
        · rename_i heq; rw [he] at heq; injection heq with e1; exact absurd e1 hc.2.2.2.2.1
        · rw [ih (by simp)]; rfl
  | .obj l, h, fuel, rest, hf, _ => by
    cases fuel with
    | zero => omega
    | succ f =>
      have hl : KVsOK l := by simpa [JOK] using h
      rw [encJ] at hf
      have ih := fun hne => parseObj_enc l hne hl f rest
        (by simp only [List.length_append, List.length_cons, List.length_nil] at hf; omega)
      rw [encJ, parseJ]
      simp only [List.append_assoc, List.cons_append, List.nil_append]
      rw [skipWs_cons _ _ (by decide)]
      simp only []
      cases l with
      | nil => simp [encObj, skipWs]
      | cons kv l' =>
        obtain ⟨cs, he⟩ := encObj_cons_head kv l'
        have hsk : skipWs (encObj (kv :: l') ++ '}' :: rest) = encObj (kv :: l') ++ '}' :: rest := by
          rw [he]; exact skipWs_cons _ _ (by decide)
        rw [hsk]
        split
        · rename_i heq; rw [he] at heq; injection heq with e1; exact absurd e1 (by decide)
        · rw [ih (by simp)]; rfl
theorem parseArr_enc : ∀ (l : List J), l ≠ [] → JsOK l → ∀ (fuel : Nat) (rest : List Char),
    (encArr l).length + 2 ≤ fuel → parseArr fuel (encArr l ++ ']' :: rest) = some (l, rest)
  | [], hne, _, _, _, _ => absurd rfl hne
  | [v], _, h, fuel, rest, hf => by
    cases fuel with
    | zero => omega
    | succ f =>
      have hv : JOK v := by
        simp only [JsOK] at h; exact h.1
      rw [encArr] at hf ⊢
      rw [parseArr, parseJ_enc v hv f (']' :: rest) (by omega) (notDigit_head _ _ (by decide))]
      simp [skipWs]
  | v :: w :: l, _, h, fuel, rest, hf => by
    cases fuel with
    | zero => omega
    | succ f =>
      have hv : JOK v ∧ JsOK (w :: l) := by
        rw [JsOK] at h; exact h
      have he : encArr (v :: w :: l) = encJ v ++ [','] ++ encArr (w :: l) := by simp [encArr]
      rw [he] at hf ⊢
      simp only [List.length_append, List.length_cons, List.length_nil] at hf
      simp only [List.append_assoc, List.cons_append, List.nil_append]
      rw [parseArr, parseJ_enc v hv.1 f (',' :: (encArr (w :: l) ++ ']' :: rest)) (by omega)
        (notDigit_head _ _ (by decide))]
      simp only []
      rw [skipWs_cons _ _ (by decide)]
      simp only []
      rw [parseArr_enc (w :: l) (by simp) hv.2 f rest (by omega)]
      rfl
theorem parseObj_enc : ∀ (l : List (List Char × J)), l ≠ [] → KVsOK l → ∀ (fuel : Nat) (rest : List Char),
    (encObj l).length + 2 ≤ fuel → parseObj fuel (encObj l ++ '}' :: rest) = some (l, rest)
  | [], hne, _, _, _, _ => absurd rfl hne
  | [(k, v)], _, h, fuel, rest, hf => by
    cases fuel with
    | zero => omega
    | succ f =>
      have hv : strOK k ∧ JOK v := by
        simp only [KVsOK] at h; exact ⟨h.1, h.2.1⟩
      rw [encObj] at hf ⊢
      rw [encStr_eq] at hf ⊢
      simp only [List.length_append, List.length_cons, List.length_nil] at hf
      simp only [List.append_assoc, List.cons_append, List.nil_append]
      rw [parseObj, skipWs_cons _ _ (by decide)]
      simp only []
      rw [parseStr_full k hv.1]
      simp only []
      rw [skipWs_cons _ _ (by decide)]
      simp only []
      rw [parseJ_enc v hv.2 f ('}' :: rest) (by omega) (notDigit_head _ _ (by decide))]
      simp [skipWs]
  | (k, v) :: w :: l, _, h, fuel, rest, hf => by
    cases fuel with
    | zero => omega
    | succ f =>
      have hv : strOK k ∧ JOK v ∧ KVsOK (w :: l) := by
        rw [KVsOK] at h; exact h
      have he : encObj ((k, v) :: w :: l) = encStr k ++ [':'] ++ encJ v ++ [','] ++ encObj (w :: l) := by
        simp [encObj]
      rw [he] at hf ⊢
      rw [encStr_eq] at hf ⊢
      simp only [List.length_append, List.length_cons, List.length_nil] at hf
      simp only [List.append_assoc, List.cons_append, List.nil_append]
      rw [parseObj, skipWs_cons _ _ (by decide)]
      simp only []
      rw [parseStr_full k hv.1]
      simp only []
      rw [skipWs_cons _ _ (by decide)]
      simp only []
      rw [parseJ_enc v hv.2.1 f (',' :: (encObj (w :: l) ++ '}' :: rest)) (by omega)
        (notDigit_head _ _ (by decide))]
      simp only []
      rw [skipWs_cons _ _ (by decide)]
      simp only []
      rw [parseObj_enc (w :: l) (by simp) hv.2.2 f rest (by omega)]
      rfl
end

theorem int_roundtrip (n : Int) (rest : List Char) (hr : ∀ c ∈ rest.head?, ¬ ('0' ≤ c ∧ c ≤ '9')) :
    parseJ (encInt n ++ rest).length.succ (encInt n ++ rest) = some (.num n, rest) :=
  parseJ_int n rest hr _

theorem str_roundtrip (s : List Char) (hs : strOK s) (rest : List Char) :
    parseStrBody ((encStr s).tail ++ rest).length.succ ((encStr s).tail ++ rest) [] = some (s, rest) := by
  have e : (encStr s).tail ++ rest = s.flatMap escChar ++ '"' :: rest := by simp [encStr_eq]
  rw [e]
  exact parseStr_full s hs rest

theorem json_roundtrip (v : J) (hv : JOK v) : decJ (encJ v) = some v := by
  have h := parseJ_enc v hv ((encJ v).length + 1) [] (Nat.lt_succ_self _) (by simp)
  rw [List.append_nil] at h
  simp [decJ, h, skipWs]

end WS.Proofs.WsJson
