import WS.Spec.Inflate
/-
  Helper lemmas for WS.Props.C01Stored: the reference inflater `WS.Spec.inflate` on a stream of
  non-final stored blocks.  ByteArray facts are stated once for `mkBA l = ByteArray.mk l.toArray`.
-/
namespace WS.Proofs.Stored
open WS WS.Spec

abbrev mkBA (l : Bytes) : ByteArray := ByteArray.mk l.toArray

theorem mkBA_size (l : Bytes) : (mkBA l).size = l.length := by simp [ByteArray.size]
theorem mkBA_get! (l : Bytes) (i : Nat) : (mkBA l).get! i = l[i]! := by simp [ByteArray.get!]
theorem mkBA_append (a b : Bytes) : mkBA a ++ mkBA b = mkBA (a ++ b) := by
  apply ByteArray.ext; simp [ByteArray.data_append]
theorem mkBA_extract (l : Bytes) (i j : Nat) : (mkBA l).extract i j = mkBA ((l.drop i).take (j - i)) := by
  apply ByteArray.ext; simp [ByteArray.data_extract]

theorem size_eq (bs : ByteArray) : bs.size = bs.data.toList.length := by
  cases bs; rfl

theorem toList_loop (bs : ByteArray) (i : Nat) (r : List UInt8) :
    ByteArray.toList.loop bs i r = r.reverse ++ bs.data.toList.drop i := by
  fun_induction ByteArray.toList.loop bs i r with
  | case1 i r h ih =>
    rw [ih]
    have h' : i < bs.data.toList.length := by rw [← size_eq]; exact h
    have h'' : i < bs.data.size := by simpa using h'
    rw [List.drop_eq_getElem_cons h']
    simp [ByteArray.get!, getElem!_pos bs.data i h'']
  | case2 i r h =>
    have h' : bs.data.toList.length ≤ i := by rw [← size_eq]; omega
    simp [List.drop_eq_nil_of_le h']

theorem mkBA_toList (l : Bytes) : (mkBA l).toList = l := by
  simp [ByteArray.toList, toList_loop]

theorem bit_zero (l : Bytes) (n p : Nat) (h : n < l.length) (h0 : l[n]! = 0) (hp : p / 8 = n) :
    BR.bit? { data := mkBA l, pos := p } = some (0, { data := mkBA l, pos := p + 1 }) := by
  have h1 : l[n] = 0 := by simpa [h] using h0
  simp [BR.bit?, hp, mkBA_size, mkBA_get!, h, h1]

theorem bits3_zero (l : Bytes) (n : Nat) (h : n < l.length) (h0 : l[n]! = 0) :
    BR.bits? { data := mkBA l, pos := 8 * n } 3 = some (0, { data := mkBA l, pos := 8 * n + 3 }) := by
  have b0 := bit_zero l n (8 * n) h h0 (by omega)
  have b1 := bit_zero l n (8 * n + 1) h h0 (by omega)
  have b2 := bit_zero l n (8 * n + 1 + 1) h h0 (by omega)
  simp [BR.bits?, List.range', b0, b1, b2]

theorem bits3_eof (l : Bytes) :
    BR.bits? { data := mkBA l, pos := 8 * l.length } 3 = none := by
  have b0 : BR.bit? { data := mkBA l, pos := 8 * l.length } = none := by
    simp [BR.bit?, mkBA_size]
  simp [BR.bits?, List.range', b0]

theorem mkBA_get!_of (l : Bytes) (i : Nat) (x : UInt8) (h : l[i]? = some x) : (mkBA l).get! i = x := by
  simp [ByteArray.get!, h]

theorem getElem?_mid (pre s rest : Bytes) (k : Nat) (hk : k < s.length) :
    (pre ++ s ++ rest)[pre.length + k]? = s[k]? := by
  rw [List.append_assoc, List.getElem?_append_right (by omega)]
  simp [List.getElem?_append_left hk]

theorem stored_step (z pre q rest : Bytes) (a b c d : UInt8) (o : ByteArray) (fuel : Nat)
    (hz : z = pre ++ (0 :: a :: b :: c :: d :: q) ++ rest)
    (hlen : a.toNat + 256 * b.toNat = q.length)
    (hnlen : c.toNat + 256 * d.toNat = 65535 - q.length) (hq : q.length ≤ 65535) :
    blocks (fuel + 1) { r := { data := mkBA z, pos := 8 * pre.length }, out := o } =
      blocks fuel { r := { data := mkBA z, pos := 8 * (pre.length + 5 + q.length) }, out := o ++ mkBA q } := by
  have hzl : z.length = pre.length + 5 + q.length + rest.length := by subst hz; simp; omega
  have g (k : Nat) (hk : k < 5) : z[pre.length + k]? = (0 :: a :: b :: c :: d :: q)[k]? := by
    subst hz; exact getElem?_mid _ _ _ _ (by simp; omega)
  have g0 := mkBA_get!_of _ _ 0 (g 0 (by omega))
  have g1 : (mkBA z).get! (pre.length + 1) = a := mkBA_get!_of _ _ a (g 1 (by omega))
  have g2 : (mkBA z).get! (pre.length + 1 + 1) = b := mkBA_get!_of _ _ b (g 2 (by omega))
  have g3 : (mkBA z).get! (pre.length + 1 + 2) = c := mkBA_get!_of _ _ c (g 3 (by omega))
  have g4 : (mkBA z).get! (pre.length + 1 + 3) = d := mkBA_get!_of _ _ d (g 4 (by omega))
  have hb := bits3_zero z pre.length (by omega) (by simpa [mkBA_get!] using g0)
  rw [blocks, hb]
  have hp : (8 * pre.length + 3 + 7) / 8 = pre.length + 1 := by omega
  have hx : (mkBA z).extract (pre.length + 1 + 4) (pre.length + 1 + 4 + q.length) = mkBA q := by
    rw [mkBA_extract]; subst hz; congr 1
    have : pre.length + 1 + 4 = (pre ++ [0, a, b, c, d]).length := by simp
    rw [this]
    simp
  simp only [hp, g1, g2, g3, g4, hlen, hnlen, mkBA_size, hzl]
  have h1 : ¬ (pre.length + 1 + 4 > pre.length + 5 + q.length + rest.length) := by omega
  have h2 : ¬ (pre.length + 5 + q.length + rest.length - (pre.length + 1 + 4) < q.length) := by omega
  have h3 : q.length + (65535 - q.length) = 65535 := by omega
  simp [h1, h2, h3, hx]

/-- at the end of the input the next block header cannot be read: the inflater stops with
`needMore` at a block boundary. -/
theorem blocks_eof (z : Bytes) (o : ByteArray) (fuel : Nat) :
    blocks (fuel + 1) { r := { data := mkBA z, pos := 8 * z.length }, out := o } =
      (.needMore, { r := { data := mkBA z, pos := 8 * z.length }, out := o }) := by
  rw [blocks, bits3_eof]

/-- `inflate` strips the dictionary it put in front of the output buffer. -/
theorem inflate_of_blocks (dict z p : Bytes) (st : InfStatus) (r : BR)
    (h : blocks (z.length + 2) { r := { data := mkBA z, pos := 0 }, out := mkBA dict } =
      (st, { r := r, out := mkBA dict ++ mkBA p })) :
    inflate dict z = (st, p) := by
  unfold inflate
  simp only []
  rw [h]
  simp only [mkBA_append, mkBA_extract, mkBA_size, mkBA_toList]
  simp
end WS.Proofs.Stored
