import WS.Spec.WriteSpec
import WS.Props.FrameCodec
import WS.Proofs.Reader
import WS.Proofs.Close
/-
  Helper lemmas for C01 / C02 (write side): masking is an involution, the shape of the frames
  `runWriter` emits, key consumption, conformance, and the reader run over emitted frames.
-/
namespace WS.Proofs.Writer
open WS WS.Model WS.Spec WS.Props.FrameCodec

/-! ### masking -/

theorem xor_cancel (x a : UInt8) : x ^^^ a ^^^ a = x := by
  rw [UInt8.xor_assoc, UInt8.xor_self, UInt8.xor_zero]

theorem xorKeyFrom_invol (key : Bytes) (i : Nat) (p : Bytes) :
    xorKeyFrom key i (xorKeyFrom key i p) = p := by
  induction p generalizing i with
  | nil => simp [xorKeyFrom]
  | cons x xs ih => simp [xorKeyFrom, ih, xor_cancel]

theorem xorKeyFrom_length (key : Bytes) (i : Nat) (p : Bytes) :
    (xorKeyFrom key i p).length = p.length := by
  induction p generalizing i with
  | nil => simp [xorKeyFrom]
  | cons x xs ih => simp [xorKeyFrom, ih]

theorem xorKey_invol (key p : Bytes) : xorKey key (xorKey key p) = p := xorKeyFrom_invol key 0 p

theorem xorKey_length (key p : Bytes) : (xorKey key p).length = p.length := xorKeyFrom_length key 0 p

/-! ### single frames -/

theorem mkFrame_data (cfg : WCfg) (fin rsv1 : Bool) (op : Nat) (p key : Bytes) :
    (mkFrame cfg fin rsv1 op p key).data = p := by
  unfold mkFrame Frame.data mkHeader
  cases cfg.client <;> simp [xorKey_invol]

theorem mkFrame_payload_length (cfg : WCfg) (fin rsv1 : Bool) (op : Nat) (p key : Bytes) :
    (mkFrame cfg fin rsv1 op p key).payload.length = p.length := by
  unfold mkFrame
  cases cfg.client <;> simp [xorKey_length]

@[simp] theorem mkFrame_fin (cfg : WCfg) (fin rsv1 : Bool) (op : Nat) (p key : Bytes) :
    (mkFrame cfg fin rsv1 op p key).h.fin = fin := rfl
@[simp] theorem mkFrame_rsv1 (cfg : WCfg) (fin rsv1 : Bool) (op : Nat) (p key : Bytes) :
    (mkFrame cfg fin rsv1 op p key).h.rsv1 = rsv1 := rfl
@[simp] theorem mkFrame_rsv2 (cfg : WCfg) (fin rsv1 : Bool) (op : Nat) (p key : Bytes) :
    (mkFrame cfg fin rsv1 op p key).h.rsv2 = false := rfl
@[simp] theorem mkFrame_rsv3 (cfg : WCfg) (fin rsv1 : Bool) (op : Nat) (p key : Bytes) :
    (mkFrame cfg fin rsv1 op p key).h.rsv3 = false := rfl
@[simp] theorem mkFrame_opcode (cfg : WCfg) (fin rsv1 : Bool) (op : Nat) (p key : Bytes) :
    (mkFrame cfg fin rsv1 op p key).h.opcode = op := rfl
@[simp] theorem mkFrame_len (cfg : WCfg) (fin rsv1 : Bool) (op : Nat) (p key : Bytes) :
    (mkFrame cfg fin rsv1 op p key).h.len = p.length := rfl
@[simp] theorem mkFrame_masked (cfg : WCfg) (fin rsv1 : Bool) (op : Nat) (p key : Bytes) :
    (mkFrame cfg fin rsv1 op p key).h.masked = cfg.client := rfl
theorem mkFrame_key (cfg : WCfg) (fin rsv1 : Bool) (op : Nat) (p key : Bytes) :
    (mkFrame cfg fin rsv1 op p key).h.key = if cfg.client then key.take 4 else [] := rfl

/-- the frames the writer can produce, with opcodes satisfying `P`. -/
def IsMk (cfg : WCfg) (P : Nat → Prop) (f : Frame) : Prop :=
  ∃ fin rsv1 op p key, f = mkFrame cfg fin rsv1 op p key ∧ P op

/-- `P` holds of the fixed opcodes. -/
structure CtlP (P : Nat → Prop) : Prop where
  cont : P opCont
  ping : P opPing
  pong : P opPong
  close : P opClose

def OpP (P : Nat → Prop) : WOp → Prop
  | .msg typ _ _ _ => P typ
  | _ => True

theorem IsMk.payload_len {cfg : WCfg} {P : Nat → Prop} {f : Frame} (h : IsMk cfg P f) :
    f.payload.length = f.h.len := by
  obtain ⟨fin, rsv1, op, p, key, rfl, -⟩ := h
  rw [mkFrame_payload_length]; rfl

theorem IsMk.opcode {cfg : WCfg} {P : Nat → Prop} {f : Frame} (h : IsMk cfg P f) : P f.h.opcode := by
  obtain ⟨fin, rsv1, op, p, key, rfl, hop⟩ := h
  exact hop

theorem IsMk.masked {cfg : WCfg} {P : Nat → Prop} {f : Frame} (h : IsMk cfg P f) : f.h.masked = cfg.client := by
  obtain ⟨fin, rsv1, op, p, key, rfl, hop⟩ := h
  rfl

theorem ctlP_lt : CtlP (· < 16) := ⟨by simp [opCont], by simp [opPing], by simp [opPong], by simp [opClose]⟩
theorem ctlP_true : CtlP (fun _ => True) := ⟨trivial, trivial, trivial, trivial⟩

/-! ### dataFrames / opFrames: shape and key consumption -/

theorem dataFrames_length (cfg : WCfg) (typ : Nat) (fl : Bool) (parts : List Bytes) (first : Bool)
    (keys : List Bytes) : (dataFrames cfg typ fl parts first keys).1.length = parts.length + 1 := by
  induction parts generalizing first keys with
  | nil => simp [dataFrames]
  | cons p ps ih => simp [dataFrames, ih]

theorem dataFrames_keys (cfg : WCfg) (typ : Nat) (fl : Bool) (parts : List Bytes) (first : Bool)
    (keys : List Bytes) : (dataFrames cfg typ fl parts first keys).2 = keys.drop (parts.length + 1) := by
  induction parts generalizing first keys with
  | nil => simp [dataFrames]
  | cons p ps ih => simp [dataFrames, ih]

theorem opFrames_msg (cfg : WCfg) (typ : Nat) (vw : Bool) (chunks obs : List Bytes) (keys : List Bytes) :
    opFrames cfg (.msg typ vw chunks obs) keys =
      if !cfg.flate && !vw then
        ([mkFrame cfg true false typ (chunks.headD []) (keys.headD [])], keys.tail)
      else if compresses cfg chunks then dataFrames cfg typ true obs true keys
      else dataFrames cfg typ false chunks true keys := rfl
theorem opFrames_ping (cfg : WCfg) (p : Bytes) (keys : List Bytes) :
    opFrames cfg (.ping p) keys = ([mkFrame cfg true false opPing p (keys.headD [])], keys.tail) := rfl
theorem opFrames_pong (cfg : WCfg) (p : Bytes) (keys : List Bytes) :
    opFrames cfg (.pong p) keys = ([mkFrame cfg true false opPong p (keys.headD [])], keys.tail) := rfl
theorem opFrames_close (cfg : WCfg) (code : Int) (reason : Bytes) (keys : List Bytes) :
    opFrames cfg (.close code reason) keys =
      match writeClosePayload code reason with
      | some p => ([mkFrame cfg true false opClose p (keys.headD [])], keys.tail)
      | none => ([], keys) := rfl

theorem opFrames_keys (cfg : WCfg) (op : WOp) (keys : List Bytes) :
    (opFrames cfg op keys).2 = keys.drop (opFrames cfg op keys).1.length := by
  cases op with
  | msg typ vw chunks obs =>
    rw [opFrames_msg]
    split
    · simp
    · split <;> simp [dataFrames_keys, dataFrames_length]
  | ping p => simp [opFrames_ping]
  | pong p => simp [opFrames_pong]
  | close code reason =>
    rw [opFrames_close]
    split <;> simp

theorem dataFrames_isMk (cfg : WCfg) (P : Nat → Prop) (hP : CtlP P) (typ : Nat) (htyp : P typ) (fl : Bool)
    (parts : List Bytes) (first : Bool) (keys : List Bytes) :
    ∀ f ∈ (dataFrames cfg typ fl parts first keys).1, IsMk cfg P f := by
  have hop : ∀ first : Bool, P (if first then typ else opCont) := by
    intro first; cases first
    · exact hP.cont
    · exact htyp
  induction parts generalizing first keys with
  | nil =>
    intro f hf
    simp only [dataFrames, List.mem_singleton] at hf
    exact ⟨_, _, _, _, _, hf, hop first⟩
  | cons p ps ih =>
    intro f hf
    simp only [dataFrames, List.mem_cons] at hf
    rcases hf with hf | hf
    · exact ⟨_, _, _, _, _, hf, hop first⟩
    · exact ih _ _ f hf

theorem opFrames_isMk (cfg : WCfg) (P : Nat → Prop) (hP : CtlP P) (op : WOp) (hwf : OpP P op)
    (keys : List Bytes) : ∀ f ∈ (opFrames cfg op keys).1, IsMk cfg P f := by
  cases op with
  | msg typ vw chunks obs =>
    have htyp : P typ := hwf
    rw [opFrames_msg]
    split
    · intro f hf
      simp only [List.mem_singleton] at hf
      exact ⟨_, _, _, _, _, hf, htyp⟩
    · split
      · exact dataFrames_isMk cfg P hP typ htyp _ _ _ _
      · exact dataFrames_isMk cfg P hP typ htyp _ _ _ _
  | ping p =>
    intro f hf
    simp only [opFrames_ping, List.mem_singleton] at hf
    exact ⟨_, _, _, _, _, hf, hP.ping⟩
  | pong p =>
    intro f hf
    simp only [opFrames_pong, List.mem_singleton] at hf
    exact ⟨_, _, _, _, _, hf, hP.pong⟩
  | close code reason =>
    rw [opFrames_close]
    split
    · intro f hf
      simp only [List.mem_singleton] at hf
      exact ⟨_, _, _, _, _, hf, hP.close⟩
    · intro f hf; simp at hf

theorem runWriter_cons (cfg : WCfg) (op : WOp) (ops : List WOp) (keys : List Bytes) :
    runWriter cfg (op :: ops) keys =
      (opFrames cfg op keys).1 ++ runWriter cfg ops (keys.drop (opFrames cfg op keys).1.length) := by
  rw [runWriter, opFrames_keys]

theorem runWriter_isMk (cfg : WCfg) (P : Nat → Prop) (hP : CtlP P) (ops : List WOp)
    (hwf : ∀ op ∈ ops, OpP P op) (keys : List Bytes) :
    ∀ f ∈ runWriter cfg ops keys, IsMk cfg P f := by
  induction ops generalizing keys with
  | nil => intro f hf; simp [runWriter] at hf
  | cons op ops ih =>
    intro f hf
    rw [runWriter_cons, List.mem_append] at hf
    rcases hf with hf | hf
    · exact opFrames_isMk cfg P hP op (hwf op (by simp)) keys f hf
    · exact ih (fun o ho => hwf o (by simp [ho])) _ f hf

theorem opWF_opP {op : WOp} (h : opWF op) : OpP (· < 16) op := by
  cases op with
  | msg typ vw chunks obs =>
    rcases h.1 with h | h <;> simp [OpP, h, opText, opBinary]
  | _ => trivial

theorem opP_true (op : WOp) : OpP (fun _ => True) op := by
  cases op <;> trivial

/-! ### keys -/

theorem KeysOK.drop {keys : List Bytes} {a b : Nat} (h : KeysOK keys (a + b)) : KeysOK (keys.drop a) b := by
  obtain ⟨h1, h2⟩ := h
  refine ⟨by simp; omega, fun k hk => h2 k (List.mem_of_mem_drop hk)⟩

theorem dataFrames_keymap (cfg : WCfg) (hc : cfg.client = true) (typ : Nat) (fl : Bool) (parts : List Bytes)
    (first : Bool) (keys : List Bytes) (hk : KeysOK keys (parts.length + 1)) :
    (dataFrames cfg typ fl parts first keys).1.map (fun f => f.h.key) = keys.take (parts.length + 1) := by
  induction parts generalizing first keys with
  | nil =>
    obtain ⟨h1, h2⟩ := hk
    cases keys with
    | nil => simp at h1
    | cons k ks =>
      have := h2 k (by simp)
      simp [dataFrames, mkFrame_key, hc, List.take_of_length_le, this]
  | cons p ps ih =>
    obtain ⟨h1, h2⟩ := hk
    cases keys with
    | nil => simp at h1
    | cons k ks =>
      have hk4 := h2 k (by simp)
      have hks : KeysOK ks (ps.length + 1) :=
        ⟨by simp at h1; omega, fun k' hk' => h2 k' (by simp [hk'])⟩
      simp [dataFrames, mkFrame_key, hc, List.take_of_length_le, hk4, ih false ks hks]

theorem single_keymap (cfg : WCfg) (hc : cfg.client = true) (fin rsv1 : Bool) (op : Nat) (p : Bytes)
    (keys : List Bytes) (hk : KeysOK keys 1) :
    [mkFrame cfg fin rsv1 op p (keys.headD [])].map (fun f => f.h.key) = keys.take 1 := by
  obtain ⟨h1, h2⟩ := hk
  cases keys with
  | nil => simp at h1
  | cons k ks =>
    have := h2 k (by simp)
    simp [mkFrame_key, hc, List.take_of_length_le, this]

theorem opFrames_keymap (cfg : WCfg) (hc : cfg.client = true) (op : WOp) (keys : List Bytes)
    (hk : KeysOK keys (opFrames cfg op keys).1.length) :
    (opFrames cfg op keys).1.map (fun f => f.h.key) = keys.take (opFrames cfg op keys).1.length := by
  cases op with
  | msg typ vw chunks obs =>
    rw [opFrames_msg] at hk ⊢
    split at hk
    · rename_i h
      rw [if_pos h]
      exact single_keymap cfg hc _ _ _ _ keys (by simpa using hk)
    · rename_i h
      rw [if_neg h]
      split at hk
      · rename_i h2
        rw [if_pos h2, dataFrames_length] at ⊢
        rw [dataFrames_length] at hk
        exact dataFrames_keymap cfg hc _ _ _ _ keys hk
      · rename_i h2
        rw [if_neg h2, dataFrames_length] at ⊢
        rw [dataFrames_length] at hk
        exact dataFrames_keymap cfg hc _ _ _ _ keys hk
  | ping p => exact single_keymap cfg hc _ _ _ _ keys (by simpa [opFrames_ping] using hk)
  | pong p => exact single_keymap cfg hc _ _ _ _ keys (by simpa [opFrames_pong] using hk)
  | close code reason =>
    rw [opFrames_close] at hk ⊢
    cases hw : writeClosePayload code reason with
    | some p =>
      rw [hw] at hk
      exact single_keymap cfg hc _ _ _ _ keys (by simpa using hk)
    | none => simp

theorem key_per_frame (cfg : WCfg) (hc : cfg.client = true) (ops : List WOp) (keys : List Bytes)
    (hk : KeysOK keys (runWriter cfg ops keys).length) :
    (runWriter cfg ops keys).map (fun f => f.h.key) = keys.take (runWriter cfg ops keys).length := by
  induction ops generalizing keys with
  | nil => simp [runWriter]
  | cons op ops ih =>
    rw [runWriter_cons] at hk ⊢
    rw [List.length_append] at hk ⊢
    have hk1 : KeysOK keys (opFrames cfg op keys).1.length := ⟨by have := hk.1; omega, hk.2⟩
    have hk2 := KeysOK.drop hk
    rw [List.map_append, opFrames_keymap cfg hc op keys hk1, ih _ hk2, List.take_add]

theorem runWriter_keyWF (cfg : WCfg) (ops : List WOp) (keys : List Bytes)
    (hk : KeysOK keys (runWriter cfg ops keys).length) :
    ∀ f ∈ runWriter cfg ops keys, (f.h.masked = true → f.h.key.length = 4) ∧ (f.h.masked = false → f.h.key = []) := by
  intro f hf
  have hmk := runWriter_isMk cfg _ ctlP_true ops (fun o _ => opP_true o) keys f hf
  constructor
  · intro hm
    have hc : cfg.client = true := by rw [← hmk.masked]; exact hm
    have h1 : f.h.key ∈ (runWriter cfg ops keys).map (fun f => f.h.key) := List.mem_map_of_mem hf
    rw [key_per_frame cfg hc ops keys hk] at h1
    exact hk.2 _ (List.mem_of_mem_take h1)
  · intro hm
    have hc : cfg.client = false := by rw [← hmk.masked]; exact hm
    obtain ⟨fin, rsv1, op, p, key, rfl, -⟩ := hmk
    simp [mkFrame_key, hc]

theorem runWriter_WF (cfg : WCfg) (ops : List WOp) (keys : List Bytes)
    (hwf : ∀ op ∈ ops, opWF op)
    (hk : KeysOK keys (runWriter cfg ops keys).length)
    (hlen : ∀ f ∈ runWriter cfg ops keys, f.h.len < 2 ^ 63) :
    ∀ f ∈ runWriter cfg ops keys, Frame.WF f := by
  intro f hf
  have hmk := runWriter_isMk cfg _ ctlP_lt ops (fun o ho => opWF_opP (hwf o ho)) keys f hf
  have hkw := runWriter_keyWF cfg ops keys hk f hf
  exact ⟨⟨hmk.opcode, hlen f hf, hkw.1, hkw.2⟩, hmk.payload_len⟩

theorem emit_parses (cfg : WCfg) (ops : List WOp) (keys : List Bytes)
    (hwf : ∀ op ∈ ops, opWF op)
    (hk : KeysOK keys (runWriter cfg ops keys).length)
    (hlen : ∀ f ∈ runWriter cfg ops keys, f.h.len < 2 ^ 63) :
    parseFrames (writerBytes cfg ops keys) = (runWriter cfg ops keys, .clean) :=
  WS.Proofs.FrameCodec.parse_encodeAll _ (runWriter_WF cfg ops keys hwf hk hlen)

theorem server_unmasked (cfg : WCfg) (hc : cfg.client = false) (ops : List WOp) (keys : List Bytes) :
    ∀ f ∈ runWriter cfg ops keys, f.h.masked = false ∧ f.h.key = [] ∧ f.data = f.payload := by
  intro f hf
  obtain ⟨fin, rsv1, op, p, key, rfl, -⟩ := runWriter_isMk cfg _ ctlP_true ops (fun o _ => opP_true o) keys f hf
  refine ⟨by simp [hc], by simp [mkFrame_key, hc], ?_⟩
  simp [Frame.data, hc]

/-! ### close payloads -/

theorem closePayloadOK_write (code : Int) (reason p : Bytes) (h : writeClosePayload code reason = some p) :
    closePayloadOK p = true ∧ p.length ≤ 125 := by
  unfold writeClosePayload at h
  split at h
  · cases h; simp [closePayloadOK]
  · unfold closeBytesErr maxCloseReason at h
    split at h
    · cases h
    · split at h
      · cases h
      · rename_i hr hv
        cases h
        have hv : validWireCloseCode code = true := by simpa using hv
        have hrange := WS.Proofs.Close.validWire_range code hv
        have hn : (code % 65536).toNat = code.toNat := by omega
        have hlt : code.toNat < 65536 := by omega
        have hback : ((code.toNat : Nat) : Int) = code := by omega
        rw [WS.Proofs.Close.closePayload_eq, hn]
        constructor
        · unfold closePayloadOK
          simp only [WS.Proofs.Close.be16_toNat code.toNat hlt, hback, hv, Bool.true_and, decide_eq_true_eq]
          omega
        · simp only [List.length_cons]; omega

theorem close_frame_ok (cfg : WCfg) (code : Int) (reason : Bytes) (keys : List Bytes) :
    (∀ f ∈ (opFrames cfg (.close code reason) keys).1, closePayloadOK f.data = true ∧ f.h.opcode = opClose) ∧
    (writeClosePayload code reason = none → (opFrames cfg (.close code reason) keys).1 = []) := by
  rw [opFrames_close]
  cases hw : writeClosePayload code reason with
  | none => simp
  | some p =>
    refine ⟨?_, by simp⟩
    intro f hf
    simp only [List.mem_singleton] at hf
    subst hf
    rw [mkFrame_data]
    exact ⟨(closePayloadOK_write code reason p hw).1, rfl⟩

theorem compress_iff (cfg : WCfg) (c : Bytes) (cs : List Bytes) :
    compresses cfg (c :: cs) = true ↔
      cfg.flate = true ∧ c.length ≥ (if cfg.threshold = 0 then (if cfg.takeover then 128 else 512) else cfg.threshold) := by
  unfold compresses effThreshold
  cases cfg.flate <;> simp

/-! ### conformance -/

theorem common_true (f : Frame) (client : Bool) (hwf : Frame.WF f) (hm : f.h.masked = client)
    (h2 : f.h.rsv2 = false) (h3 : f.h.rsv3 = false) :
    ((f.h.masked == client) && (!f.h.masked || f.h.key.length == 4) && (f.h.masked || f.h.key.isEmpty) &&
      !f.h.rsv2 && !f.h.rsv3 && (f.payload.length == f.h.len) && decide (f.h.len < 2 ^ 63)) = true := by
  obtain ⟨⟨-, hl, hk1, hk2⟩, hpl⟩ := hwf
  cases hmm : f.h.masked
  · simp [← hm, hmm, hk2 hmm, h2, h3, hpl, hl]
  · simp [← hm, hmm, hk1 hmm, h2, h3, hpl, hl]

theorem conf_ctl (client fl inMsg : Bool) (f : Frame) (rest : List Frame)
    (hwf : Frame.WF f) (hm : f.h.masked = client) (h2 : f.h.rsv2 = false) (h3 : f.h.rsv3 = false)
    (hop : f.h.opcode = opClose ∨ f.h.opcode = opPing ∨ f.h.opcode = opPong)
    (hfin : f.h.fin = true) (hlen : f.h.len ≤ 125) (hr1 : f.h.rsv1 = false)
    (hcl : f.h.opcode = opClose → closePayloadOK f.data = true) :
    conformant client fl inMsg (f :: rest) = conformant client fl inMsg rest := by
  have hc := common_true f client hwf hm h2 h3
  simp only [conformant, hc]
  have e : (f.h.opcode == opClose || f.h.opcode == opPing || f.h.opcode == opPong) = true := by
    rcases hop with h | h | h <;> simp [h, opClose, opPing, opPong]
  have e2 : (f.h.opcode != opClose || closePayloadOK f.data) = true := by
    by_cases h : f.h.opcode = opClose
    · simp [hcl h]
    · simp [h]
  simp [e, e2, hfin, hlen, hr1]

theorem conf_first (client fl : Bool) (f : Frame) (rest : List Frame)
    (hwf : Frame.WF f) (hm : f.h.masked = client) (h2 : f.h.rsv2 = false) (h3 : f.h.rsv3 = false)
    (hop : f.h.opcode = opText ∨ f.h.opcode = opBinary)
    (hr1 : f.h.rsv1 = true → fl = true) :
    conformant client fl false (f :: rest) = conformant client fl (!f.h.fin) rest := by
  have hc := common_true f client hwf hm h2 h3
  simp only [conformant, hc]
  have e : (f.h.opcode == opClose || f.h.opcode == opPing || f.h.opcode == opPong) = false := by
    rcases hop with h | h <;> simp [h, opClose, opPing, opPong, opText, opBinary]
  have e2 : (f.h.opcode == opText || f.h.opcode == opBinary) = true := by
    rcases hop with h | h <;> simp [h, opText, opBinary]
  have e3 : (!f.h.rsv1 || fl) = true := by
    cases h : f.h.rsv1
    · simp
    · simp [hr1 h]
  simp [e, e2, e3]

theorem conf_cont (client fl : Bool) (f : Frame) (rest : List Frame)
    (hwf : Frame.WF f) (hm : f.h.masked = client) (h2 : f.h.rsv2 = false) (h3 : f.h.rsv3 = false)
    (hop : f.h.opcode = opCont) (hr1 : f.h.rsv1 = false) :
    conformant client fl true (f :: rest) = conformant client fl (!f.h.fin) rest := by
  have hc := common_true f client hwf hm h2 h3
  simp only [conformant, hc]
  simp [hop, hr1, opClose, opPing, opPong, opText, opBinary, opCont]

theorem conf_dataFrames (cfg : WCfg) (typ : Nat) (htyp : typ = opText ∨ typ = opBinary) (fl : Bool)
    (hfl : fl = true → cfg.flate = true)
    (parts : List Bytes) (first : Bool) (keys : List Bytes) (rest : List Frame)
    (hwf : ∀ f ∈ (dataFrames cfg typ fl parts first keys).1, Frame.WF f) :
    conformant cfg.client cfg.flate (!first) ((dataFrames cfg typ fl parts first keys).1 ++ rest) =
      conformant cfg.client cfg.flate false rest := by
  induction parts generalizing first keys with
  | nil =>
    simp only [dataFrames, List.cons_append, List.nil_append]
    have hw := hwf _ List.mem_cons_self
    cases first
    · rw [Bool.not_false, conf_cont cfg.client _ _ _ hw rfl rfl rfl (by simp) (by simp)]
      simp
    · rw [Bool.not_true, conf_first cfg.client _ _ _ hw rfl rfl rfl (by simpa using htyp)
        (by intro h; simp at h; exact hfl h)]
      simp
  | cons p ps ih =>
    simp only [dataFrames, List.cons_append]
    have hw := hwf _ List.mem_cons_self
    have hws : ∀ f ∈ (dataFrames cfg typ fl ps false keys.tail).1, Frame.WF f :=
      fun f hf => hwf f (by simp [dataFrames, hf])
    have := ih false keys.tail hws
    simp only [Bool.not_false] at this
    cases first
    · rw [Bool.not_false, conf_cont cfg.client _ _ _ hw rfl rfl rfl (by simp) (by simp)]
      simpa using this
    · rw [Bool.not_true, conf_first cfg.client _ _ _ hw rfl rfl rfl (by simpa using htyp)
        (by intro h; simp at h; exact hfl h)]
      simpa using this

theorem compresses_flate {cfg : WCfg} {chunks : List Bytes} (h : compresses cfg chunks = true) :
    cfg.flate = true := by
  unfold compresses at h
  simp at h
  exact h.1

theorem conf_opFrames (cfg : WCfg) (op : WOp) (hwfo : opWF op) (hc : ctlOK op) (keys : List Bytes)
    (rest : List Frame) (hwf : ∀ f ∈ (opFrames cfg op keys).1, Frame.WF f) :
    conformant cfg.client cfg.flate false ((opFrames cfg op keys).1 ++ rest) =
      conformant cfg.client cfg.flate false rest := by
  cases op with
  | msg typ vw chunks obs =>
    have htyp := hwfo.1
    rw [opFrames_msg] at hwf ⊢
    split at hwf
    · rename_i h
      rw [if_pos h]
      have hw := hwf _ List.mem_cons_self
      simp only [List.cons_append, List.nil_append]
      rw [conf_first cfg.client _ _ _ hw rfl rfl rfl (by simpa using htyp) (by simp)]
      simp
    · rename_i h
      rw [if_neg h]
      split at hwf
      · rename_i h2
        rw [if_pos h2]
        exact conf_dataFrames cfg typ htyp true (fun _ => compresses_flate h2) obs true keys rest hwf
      · rename_i h2
        rw [if_neg h2]
        exact conf_dataFrames cfg typ htyp false (by simp) chunks true keys rest hwf
  | ping p =>
    rw [opFrames_ping] at hwf ⊢
    have hw := hwf _ List.mem_cons_self
    simp only [List.cons_append, List.nil_append]
    exact conf_ctl cfg.client _ _ _ _ hw rfl rfl rfl (by simp) rfl hc rfl (by simp [opPing, opClose])
  | pong p =>
    rw [opFrames_pong] at hwf ⊢
    have hw := hwf _ List.mem_cons_self
    simp only [List.cons_append, List.nil_append]
    exact conf_ctl cfg.client _ _ _ _ hw rfl rfl rfl (by simp) rfl hc rfl (by simp [opPong, opClose])
  | close code reason =>
    rw [opFrames_close] at hwf ⊢
    cases hw : writeClosePayload code reason with
    | none => simp
    | some p =>
      rw [hw] at hwf
      have hw' := hwf _ List.mem_cons_self
      have hcp := closePayloadOK_write code reason p hw
      simp only [List.cons_append, List.nil_append]
      exact conf_ctl cfg.client _ _ _ _ hw' rfl rfl rfl (by simp) rfl hcp.2 rfl
        (by intro _; rw [mkFrame_data]; exact hcp.1)

theorem conf_runWriter (cfg : WCfg) (ops : List WOp) (keys : List Bytes)
    (hwf : ∀ op ∈ ops, opWF op) (hc : ∀ op ∈ ops, ctlOK op)
    (hF : ∀ f ∈ runWriter cfg ops keys, Frame.WF f) :
    conformant cfg.client cfg.flate false (runWriter cfg ops keys) = true := by
  induction ops generalizing keys with
  | nil => simp [runWriter, conformant]
  | cons op ops ih =>
    rw [runWriter_cons] at hF ⊢
    rw [conf_opFrames cfg op (hwf op (by simp)) (hc op (by simp)) keys _
      (fun f hf => hF f (List.mem_append_left _ hf))]
    exact ih _ (fun o ho => hwf o (by simp [ho])) (fun o ho => hc o (by simp [ho]))
      (fun f hf => hF f (List.mem_append_right _ hf))

theorem emit_conformant (cfg : WCfg) (ops : List WOp) (keys : List Bytes)
    (hwf : ∀ op ∈ ops, opWF op)
    (hk : KeysOK keys (runWriter cfg ops keys).length) (hc : ∀ op ∈ ops, ctlOK op)
    (hlen : ∀ f ∈ runWriter cfg ops keys, f.h.len < 2 ^ 63) :
    conformant cfg.client cfg.flate false (runWriter cfg ops keys) = true :=
  conf_runWriter cfg ops keys hwf hc (runWriter_WF cfg ops keys hwf hk hlen)

/-! ### trim / slide -/

theorem trim_spec (chunks : List Bytes) :
    (trimLastFour chunks).1 ++ (trimLastFour chunks).2 = chunks.flatten ∧
    (trimLastFour chunks).2.length = min 4 chunks.flatten.length := by
  unfold trimLastFour
  simp only [List.take_append_drop, List.length_drop]
  exact ⟨trivial, by omega⟩

theorem drop_tail_append {α : Type} (l p : List α) (n : Nat) :
    (l.drop (l.length - n) ++ p).drop ((l.drop (l.length - n) ++ p).length - n) =
      (l ++ p).drop ((l ++ p).length - n) := by
  have h1 : l.drop (l.length - n) ++ p = (l ++ p).drop (l.length - n) := by
    rw [List.drop_append_of_le_length (by omega)]
  rw [h1, List.drop_drop]
  congr 1
  simp only [List.length_drop, List.length_append]
  omega

theorem foldl_tail {α : Type} (n : Nat) (g : List α → List α → List α)
    (hg : ∀ d p, g d p = (d ++ p).drop ((d ++ p).length - n)) (ws : List (List α)) (l : List α) :
    ws.foldl g (l.drop (l.length - n)) =
      (l ++ ws.flatten).drop ((l ++ ws.flatten).length - n) := by
  induction ws generalizing l with
  | nil => simp
  | cons w ws ih =>
    rw [List.foldl_cons, hg, drop_tail_append, ih]
    simp [List.append_assoc]

theorem slide_spec (ws : List Bytes) :
    ws.foldl slide [] = ws.flatten.drop (ws.flatten.length - windowSize) := by
  have h := foldl_tail windowSize slide (fun _ _ => rfl) ws []
  rw [List.nil_append, List.drop_nil] at h
  exact h

/-! ### the reader over emitted frames -/

section reader
variable (inf : Inflate) (cfg : RCfg)

theorem allowance_neg : allowance (-1) = -1 := by simp [allowance]

theorem takeLimited_neg (d : Bytes) : takeLimited (-1) d = (d, -1, false) := by simp [takeLimited]

theorem step_ping (st : RState) (f : Frame) (rest : List Frame) (tl : Tail)
    (hc : headerCheck cfg f.h = none) (hop : f.h.opcode = opPing) :
    runReader inf cfg [] st (f :: rest) tl = .reply opPong f.data :: runReader inf cfg [] st rest tl := by
  rw [runReader, hc]
  simp [hop]

theorem step_pong (st : RState) (f : Frame) (rest : List Frame) (tl : Tail)
    (hc : headerCheck cfg f.h = none) (hop : f.h.opcode = opPong) :
    runReader inf cfg [] st (f :: rest) tl = runReader inf cfg [] st rest tl := by
  rw [runReader, hc]
  simp [hop, opPing, opPong]

theorem step_data_nf (st st' : RState) (f : Frame) (rest : List Frame) (tl : Tail)
    (hc : headerCheck cfg f.h = none) (hop : f.h.opcode ≤ 2) (hfin : f.h.fin = false)
    (hds : dataStep inf cfg [] st f.h f.data = ([], some st')) :
    runReader inf cfg [] st (f :: rest) tl = runReader inf cfg [] st' rest tl := by
  rw [runReader, hc]
  have e1 : (f.h.opcode == opPing) = false := by simp [opPing]; omega
  have e2 : (f.h.opcode == opPong) = false := by simp [opPong]; omega
  have e3 : (f.h.opcode == opClose) = false := by simp [opClose]; omega
  simp [e1, e2, e3, hds, hfin]

theorem step_data_fin (st st' st'' : RState) (evs : List Ev) (f : Frame) (rest : List Frame) (tl : Tail)
    (hc : headerCheck cfg f.h = none) (hop : f.h.opcode ≤ 2) (hfin : f.h.fin = true)
    (hds : dataStep inf cfg [] st f.h f.data = ([], some st'))
    (hfm : finishMsg inf cfg [] st' = (evs, some st'')) :
    runReader inf cfg [] st (f :: rest) tl = evs ++ runReader inf cfg [] st'' rest tl := by
  rw [runReader, hc]
  have e1 : (f.h.opcode == opPing) = false := by simp [opPing]; omega
  have e2 : (f.h.opcode == opPong) = false := by simp [opPong]; omega
  have e3 : (f.h.opcode == opClose) = false := by simp [opClose]; omega
  simp [e1, e2, e3, hds, hfin, hfm]

theorem ds_idle_plain (hL : cfg.limit = -1) (dict : Bytes) (idx : Nat) (h : Header) (d : Bytes)
    (hop : h.opcode = opText ∨ h.opcode = opBinary) (hr : h.rsv1 = false) :
    dataStep inf cfg [] ⟨.idle, dict, idx⟩ h d = ([], some ⟨.plain h.opcode d (-1), dict, idx + 1⟩) := by
  have e : (h.opcode == opCont) = false := by
    rcases hop with h | h <;> simp [h, opCont, opText, opBinary]
  simp [dataStep, e, hr, WS.Proofs.Reader.limitFor_nil, hL, allowance_neg, takeLimited_neg]

theorem ds_idle_comp (dict : Bytes) (idx : Nat) (h : Header) (d : Bytes)
    (hop : h.opcode = opText ∨ h.opcode = opBinary) (hr : h.rsv1 = true) :
    dataStep inf cfg [] ⟨.idle, dict, idx⟩ h d = ([], some ⟨.comp h.opcode d, dict, idx + 1⟩) := by
  have e : (h.opcode == opCont) = false := by
    rcases hop with h | h <;> simp [h, opCont, opText, opBinary]
  simp [dataStep, e, hr]

theorem ds_plain (typ : Nat) (acc : Bytes) (dict : Bytes) (idx : Nat) (h : Header) (d : Bytes)
    (hop : h.opcode = opCont) :
    dataStep inf cfg [] ⟨.plain typ acc (-1), dict, idx⟩ h d =
      ([], some ⟨.plain typ (acc ++ d) (-1), dict, idx⟩) := by
  simp [dataStep, hop, takeLimited_neg]

theorem ds_comp (typ : Nat) (z : Bytes) (dict : Bytes) (idx : Nat) (h : Header) (d : Bytes)
    (hop : h.opcode = opCont) :
    dataStep inf cfg [] ⟨.comp typ z, dict, idx⟩ h d = ([], some ⟨.comp typ (z ++ d), dict, idx⟩) := by
  simp [dataStep, hop]

theorem fm_plain (typ : Nat) (acc : Bytes) (n : Int) (dict : Bytes) (idx : Nat) :
    finishMsg inf cfg [] ⟨.plain typ acc n, dict, idx⟩ = ([.msg typ acc], some ⟨.idle, dict, idx⟩) := by
  simp [finishMsg]

theorem fm_comp (hL : cfg.limit = -1) (typ : Nat) (z : Bytes) (dict : Bytes) (idx : Nat) (out : Bytes)
    (hinf : inf dict (z ++ deflateTail) = ⟨out, true⟩) :
    finishMsg inf cfg [] ⟨.comp typ z, dict, idx⟩ =
      ([.msg typ out], some ⟨.idle, if cfg.takeover then slide dict out else dict, idx⟩) := by
  simp [finishMsg, hinf, WS.Proofs.Reader.limitFor_nil, hL, allowance_neg, takeLimited_neg]

end reader

/-- the peer's reader configuration. -/
def rc (wcfg : WCfg) (rt : Bool) : RCfg :=
  { client := !wcfg.client, flate := wcfg.flate, takeover := rt, limit := -1 }

theorem hc_mk (wcfg : WCfg) (rt : Bool) (fin rsv1 : Bool) (op : Nat) (p key : Bytes)
    (h1 : rsv1 = true → wcfg.flate = true ∧ (op = opText ∨ op = opBinary))
    (hop : op = 0 ∨ op = 1 ∨ op = 2 ∨ op = 8 ∨ op = 9 ∨ op = 10)
    (hctl : 8 ≤ op → p.length ≤ 125 ∧ fin = true) :
    headerCheck (rc wcfg rt) (mkFrame wcfg fin rsv1 op p key).h = none := by
  rw [WS.Proofs.Reader.headerCheck_iff]
  exact ⟨rfl, rfl, h1, by simp [rc], hop, hctl⟩

section run
variable (inf : Inflate) (wcfg : WCfg) (rt : Bool)

theorem read_plain_tail (typ : Nat) (fl : Bool) (dict : Bytes) (idx : Nat) (rest : List Frame) (tl : Tail)
    (parts : List Bytes) (acc : Bytes) (keys : List Bytes) :
    runReader inf (rc wcfg rt) [] ⟨.plain typ acc (-1), dict, idx⟩
        ((dataFrames wcfg typ fl parts false keys).1 ++ rest) tl =
      .msg typ (acc ++ parts.flatten) :: runReader inf (rc wcfg rt) [] ⟨.idle, dict, idx⟩ rest tl := by
  induction parts generalizing acc keys with
  | nil =>
    simp only [dataFrames, List.cons_append, List.nil_append]
    rw [step_data_fin inf (rc wcfg rt) _ _ _ _ _ rest tl
      (hc_mk wcfg rt _ _ _ _ _ (by simp) (by simp [opCont]) (by simp [opCont]))
      (by simp [opCont]) rfl
      (ds_plain inf (rc wcfg rt) typ acc dict idx _ _ (by simp))
      (fm_plain inf (rc wcfg rt) typ _ (-1) dict idx)]
    simp [mkFrame_data]
  | cons p ps ih =>
    simp only [dataFrames, List.cons_append]
    rw [step_data_nf inf (rc wcfg rt) _ _ _ _ tl
      (hc_mk wcfg rt _ _ _ _ _ (by simp) (by simp [opCont]) (by simp [opCont]))
      (by simp [opCont]) rfl
      (ds_plain inf (rc wcfg rt) typ acc dict idx _ _ (by simp))]
    rw [ih, mkFrame_data]
    simp [List.append_assoc]

theorem read_comp_tail (typ : Nat) (fl : Bool) (dict : Bytes) (idx : Nat) (rest : List Frame) (tl : Tail)
    (parts : List Bytes) (z : Bytes) (keys : List Bytes) (out : Bytes)
    (hinf : inf dict ((z ++ parts.flatten) ++ deflateTail) = ⟨out, true⟩) :
    runReader inf (rc wcfg rt) [] ⟨.comp typ z, dict, idx⟩
        ((dataFrames wcfg typ fl parts false keys).1 ++ rest) tl =
      .msg typ out :: runReader inf (rc wcfg rt) []
        ⟨.idle, if rt then slide dict out else dict, idx⟩ rest tl := by
  induction parts generalizing z keys with
  | nil =>
    simp only [dataFrames, List.cons_append, List.nil_append]
    rw [step_data_fin inf (rc wcfg rt) _ _ _ _ _ rest tl
      (hc_mk wcfg rt _ _ _ _ _ (by simp) (by simp [opCont]) (by simp [opCont]))
      (by simp [opCont]) rfl
      (ds_comp inf (rc wcfg rt) typ z dict idx _ _ (by simp))
      (fm_comp inf (rc wcfg rt) rfl typ _ dict idx out (by simpa [mkFrame_data] using hinf))]
    rfl
  | cons p ps ih =>
    simp only [dataFrames, List.cons_append]
    rw [step_data_nf inf (rc wcfg rt) _ _ _ _ tl
      (hc_mk wcfg rt _ _ _ _ _ (by simp) (by simp [opCont]) (by simp [opCont]))
      (by simp [opCont]) rfl
      (ds_comp inf (rc wcfg rt) typ z dict idx _ _ (by simp))]
    rw [ih]
    rw [mkFrame_data]
    simpa [List.append_assoc] using hinf

theorem typ_ops {typ : Nat} (htyp : typ = opText ∨ typ = opBinary) :
    (typ = 0 ∨ typ = 1 ∨ typ = 2 ∨ typ = 8 ∨ typ = 9 ∨ typ = 10) ∧ typ ≤ 2 ∧
      (∀ (n : Nat) (fin : Bool), 8 ≤ typ → n ≤ 125 ∧ fin = true) := by
  rcases htyp with h | h <;> subst h <;> simp [opText, opBinary]

theorem read_plain_first (typ : Nat) (htyp : typ = opText ∨ typ = opBinary) (dict : Bytes) (idx : Nat)
    (rest : List Frame) (tl : Tail) (parts : List Bytes) (keys : List Bytes) :
    runReader inf (rc wcfg rt) [] ⟨.idle, dict, idx⟩
        ((dataFrames wcfg typ false parts true keys).1 ++ rest) tl =
      .msg typ parts.flatten :: runReader inf (rc wcfg rt) [] ⟨.idle, dict, idx + 1⟩ rest tl := by
  obtain ⟨h1, h2, h3⟩ := typ_ops htyp
  cases parts with
  | nil =>
    simp only [dataFrames, List.cons_append, List.nil_append, Bool.and_true, if_true]
    rw [step_data_fin inf (rc wcfg rt) _ _ _ _ _ rest tl
      (hc_mk wcfg rt _ _ _ _ _ (by simp) h1 (h3 _ _))
      h2 rfl
      (ds_idle_plain inf (rc wcfg rt) rfl dict idx _ _ htyp rfl)
      (fm_plain inf (rc wcfg rt) _ _ (-1) dict (idx + 1))]
    simp [mkFrame_data]
  | cons p ps =>
    simp only [dataFrames, List.cons_append, Bool.and_true, if_true]
    rw [step_data_nf inf (rc wcfg rt) _ _ _ _ tl
      (hc_mk wcfg rt _ _ _ _ _ (by simp) h1 (h3 _ _))
      h2 rfl
      (ds_idle_plain inf (rc wcfg rt) rfl dict idx _ _ htyp rfl)]
    rw [mkFrame_opcode, read_plain_tail, mkFrame_data]
    simp

theorem read_comp_first (hfl : wcfg.flate = true) (typ : Nat) (htyp : typ = opText ∨ typ = opBinary)
    (dict : Bytes) (idx : Nat) (rest : List Frame) (tl : Tail) (parts : List Bytes) (keys : List Bytes)
    (out : Bytes) (hinf : inf dict (parts.flatten ++ deflateTail) = ⟨out, true⟩) :
    runReader inf (rc wcfg rt) [] ⟨.idle, dict, idx⟩
        ((dataFrames wcfg typ true parts true keys).1 ++ rest) tl =
      .msg typ out :: runReader inf (rc wcfg rt) []
        ⟨.idle, if rt then slide dict out else dict, idx + 1⟩ rest tl := by
  obtain ⟨h1, h2, h3⟩ := typ_ops htyp
  cases parts with
  | nil =>
    simp only [dataFrames, List.cons_append, List.nil_append, Bool.and_true, if_true]
    rw [step_data_fin inf (rc wcfg rt) _ _ _ _ _ rest tl
      (hc_mk wcfg rt _ _ _ _ _ (fun _ => ⟨hfl, htyp⟩) h1 (h3 _ _))
      h2 rfl
      (ds_idle_comp inf (rc wcfg rt) dict idx _ _ htyp rfl)
      (fm_comp inf (rc wcfg rt) rfl _ _ dict (idx + 1) out (by simpa [mkFrame_data] using hinf))]
    rfl
  | cons p ps =>
    simp only [dataFrames, List.cons_append, Bool.and_true, if_true]
    rw [step_data_nf inf (rc wcfg rt) _ _ _ _ tl
      (hc_mk wcfg rt _ _ _ _ _ (fun _ => ⟨hfl, htyp⟩) h1 (h3 _ _))
      h2 rfl
      (ds_idle_comp inf (rc wcfg rt) dict idx _ _ htyp rfl)]
    rw [mkFrame_opcode, read_comp_tail]
    rw [mkFrame_data]
    simpa using hinf

theorem read_ops (ops : List WOp) (keys : List Bytes) (dict : Bytes) (idx : Nat) (rest : List Frame) (tl : Tail)
    (hwf : ∀ op ∈ ops, opWF op) (hnc : ∀ op ∈ ops, isClose op = false) (hctl : ∀ op ∈ ops, ctlOK op)
    (hcodec : CodecOK inf wcfg rt dict ops) :
    ∃ dict' idx', runReader inf (rc wcfg rt) [] ⟨.idle, dict, idx⟩ (runWriter wcfg ops keys ++ rest) tl =
      (ops.map opEvents).flatten ++ runReader inf (rc wcfg rt) [] ⟨.idle, dict', idx'⟩ rest tl := by
  induction ops generalizing keys dict idx with
  | nil => exact ⟨dict, idx, by simp [runWriter]⟩
  | cons op ops ih =>
    have hwf' : ∀ o ∈ ops, opWF o := fun o ho => hwf o (by simp [ho])
    have hnc' : ∀ o ∈ ops, isClose o = false := fun o ho => hnc o (by simp [ho])
    have hctl' : ∀ o ∈ ops, ctlOK o := fun o ho => hctl o (by simp [ho])
    have hwf0 := hwf op List.mem_cons_self
    have hnc0 := hnc op List.mem_cons_self
    have hctl0 := hctl op List.mem_cons_self
    rw [runWriter_cons, List.append_assoc]
    generalize keys.drop (opFrames wcfg op keys).1.length = keys'
    simp only [List.map_cons, List.flatten_cons]
    cases op with
    | msg typ vw chunks obs =>
      obtain ⟨htyp, hvw⟩ := hwf0
      obtain ⟨h1, h2, h3⟩ := typ_ops htyp
      simp only [CodecOK] at hcodec
      rw [opFrames_msg]
      by_cases h : (!wcfg.flate && !vw) = true
      · rw [if_pos h]
        simp only [Bool.and_eq_true, Bool.not_eq_true'] at h
        obtain ⟨p, rfl⟩ := hvw h.2
        have hcomp : compresses wcfg [p] = false := by simp [compresses, h.1]
        rw [hcomp] at hcodec
        simp only [Bool.false_eq_true, if_false] at hcodec
        obtain ⟨d', i', e⟩ := ih keys' dict (idx + 1) hwf' hnc' hctl' hcodec
        refine ⟨d', i', ?_⟩
        simp only [List.cons_append, List.nil_append, List.headD_cons]
        rw [step_data_fin inf (rc wcfg rt) _ _ _ _ _ _ tl
          (hc_mk wcfg rt _ _ _ _ _ (by simp) h1 (h3 _ _))
          h2 rfl
          (ds_idle_plain inf (rc wcfg rt) rfl dict idx _ _ htyp rfl)
          (fm_plain inf (rc wcfg rt) _ _ (-1) dict (idx + 1)), e]
        simp [opEvents, mkFrame_data]
      · rw [if_neg h]
        by_cases h2c : compresses wcfg chunks = true
        · rw [if_pos h2c] at hcodec ⊢
          obtain ⟨hinf, hcodec⟩ := hcodec
          obtain ⟨d', i', e⟩ := ih keys' _ (idx + 1) hwf' hnc' hctl' hcodec
          refine ⟨d', i', ?_⟩
          rw [read_comp_first inf wcfg rt (compresses_flate h2c) typ htyp dict idx _ tl obs keys _ hinf, e]
          simp [opEvents]
        · rw [if_neg h2c] at hcodec ⊢
          obtain ⟨d', i', e⟩ := ih keys' dict (idx + 1) hwf' hnc' hctl' hcodec
          refine ⟨d', i', ?_⟩
          rw [read_plain_first inf wcfg rt typ htyp dict idx _ tl chunks keys, e]
          simp [opEvents]
    | ping p =>
      simp only [CodecOK] at hcodec
      obtain ⟨d', i', e⟩ := ih keys' dict idx hwf' hnc' hctl' hcodec
      refine ⟨d', i', ?_⟩
      rw [opFrames_ping]
      simp only [List.cons_append, List.nil_append]
      rw [step_ping inf (rc wcfg rt) _ _ _ tl
        (hc_mk wcfg rt true false opPing p _ (by simp) (by simp [opPing]) (fun _ => ⟨hctl0, rfl⟩)) rfl, e]
      simp [opEvents, mkFrame_data]
    | pong p =>
      simp only [CodecOK] at hcodec
      obtain ⟨d', i', e⟩ := ih keys' dict idx hwf' hnc' hctl' hcodec
      refine ⟨d', i', ?_⟩
      rw [opFrames_pong]
      simp only [List.cons_append, List.nil_append]
      rw [step_pong inf (rc wcfg rt) _ _ _ tl
        (hc_mk wcfg rt true false opPong p _ (by simp) (by simp [opPong]) (fun _ => ⟨hctl0, rfl⟩)) rfl, e]
      simp [opEvents]
    | close code reason => simp [isClose] at hnc0

theorem roundtrip (ops : List WOp) (keys : List Bytes)
    (hwf : ∀ op ∈ ops, opWF op) (hnc : ∀ op ∈ ops, isClose op = false) (hctl : ∀ op ∈ ops, ctlOK op)
    (hk : KeysOK keys (runWriter wcfg ops keys).length)
    (hlen : ∀ f ∈ runWriter wcfg ops keys, f.h.len < 2 ^ 63)
    (hcodec : CodecOK inf wcfg rt [] ops) :
    readStream inf { client := !wcfg.client, flate := wcfg.flate, takeover := rt, limit := -1 } []
        (writerBytes wcfg ops keys) =
      (ops.map opEvents).flatten ++ [.fail .io] := by
  unfold readStream
  simp only [emit_parses wcfg ops keys hwf hk hlen]
  obtain ⟨d', i', e⟩ := read_ops inf wcfg rt ops keys [] 0 [] .clean hwf hnc hctl hcodec
  rw [List.append_nil] at e
  have e0 : initR = ⟨.idle, [], 0⟩ := rfl
  rw [e0]
  show runReader inf (rc wcfg rt) [] _ _ _ = _
  rw [e, WS.Proofs.Reader.runReader_nil_clean]
  simp [stopIn, stopReplies]

end run

end WS.Proofs.Writer
