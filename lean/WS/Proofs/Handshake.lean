import WS.Model.Handshake
/-
  Helper lemmas for C11 / C12 / C13 (handshake decision logic): base64 round trip, the inner loop
  of authenticateOrigin, and the glob matcher on wildcard-free patterns.
-/
namespace WS.Props.C12
open WS WS.Model

def plainChar (c : Char) : Bool := c != '*' && c != '?' && c != '[' && c != '\\'

end WS.Props.C12

namespace WS.Proofs.Handshake
open WS WS.Model WS.Spec WS.Props.C12

/-! ### base64 -/

theorem b64_facts : ∀ n : Fin 64, b64Val (b64Char n) = some n.val ∧ b64Char n ≠ '=' ∧ b64Char n ≠ '\r' ∧ b64Char n ≠ '\n' := by
  decide +kernel

theorem b64Val_b64Char {n : Nat} (h : n < 64) : b64Val (b64Char n) = some n := (b64_facts ⟨n, h⟩).1
theorem b64Char_ne_eq {n : Nat} (h : n < 64) : b64Char n ≠ '=' := (b64_facts ⟨n, h⟩).2.1
theorem b64Char_ne_cr {n : Nat} (h : n < 64) : b64Char n ≠ '\r' := (b64_facts ⟨n, h⟩).2.2.1
theorem b64Char_ne_lf {n : Nat} (h : n < 64) : b64Char n ≠ '\n' := (b64_facts ⟨n, h⟩).2.2.2

theorem quads_cons (a b c d : Char) (rest : List Char) (hd : d ≠ '=') :
    b64DecodeQuads (a :: b :: c :: d :: rest) = (do
      let x ← b64Val a
      let y ← b64Val b
      let z ← b64Val c
      let w ← b64Val d
      let n := ((x * 64 + y) * 64 + z) * 64 + w
      let r ← b64DecodeQuads rest
      some (UInt8.ofNat (n / 65536) :: UInt8.ofNat (n / 256 % 256) :: UInt8.ofNat (n % 256) :: r)) := by
  conv => lhs; unfold b64DecodeQuads
  split
  · simp_all
  · simp_all
  · simp_all
  · rename_i h; simp at h; obtain ⟨rfl, rfl, rfl, rfl, rfl⟩ := h; rfl
  · rename_i h; exact absurd rfl (h a b c d rest)


theorem quads_pad2 (a b : Char) :
    b64DecodeQuads [a, b, '=', '='] = (do
      let x ← b64Val a
      let y ← b64Val b
      some [UInt8.ofNat ((x * 64 + y) / 16)]) := by
  unfold b64DecodeQuads; rfl

theorem quads_pad1 (a b c : Char) (hc : c ≠ '=') :
    b64DecodeQuads [a, b, c, '='] = (do
      let x ← b64Val a
      let y ← b64Val b
      let z ← b64Val c
      let n := (x * 64 + y) * 64 + z
      some [UInt8.ofNat (n / 1024), UInt8.ofNat (n / 4 % 256)]) := by
  conv => lhs; unfold b64DecodeQuads
  split
  · simp_all
  · simp_all
  · rename_i h; simp at h; obtain ⟨rfl, rfl, rfl⟩ := h; rfl
  · rename_i h1 h2 h; simp at h; obtain ⟨rfl, rfl, rfl, rfl, rfl⟩ := h
    exact (h2 rfl rfl).elim
  · rename_i h; exact absurd rfl (h a b c '=' [])

theorem ofNat_eq (a : UInt8) (n : Nat) (h : n = a.toNat) : UInt8.ofNat n = a := by
  rw [h]; exact UInt8.ofNat_toNat

theorem quads_roundtrip (b : Bytes) : b64DecodeQuads (b64Encode b) = some b := by
  induction b using b64Encode.induct with
  | case1 => simp [b64Encode, b64DecodeQuads]
  | case2 a =>
    have ha := a.toNat_lt
    simp only [b64Encode]
    rw [quads_pad2]
    simp only [b64Val_b64Char (Nat.mod_lt _ (by decide : 64 > 0)), Option.bind_eq_bind, Option.bind_some]
    rw [ofNat_eq a _ (by omega)]
  | case3 a b =>
    have ha := a.toNat_lt
    have hb := b.toNat_lt
    simp only [b64Encode]
    rw [quads_pad1 _ _ _ (b64Char_ne_eq (Nat.mod_lt _ (by decide)))]
    simp only [b64Val_b64Char (Nat.mod_lt _ (by decide : 64 > 0)), Option.bind_eq_bind, Option.bind_some]
    rw [ofNat_eq a _ (by omega), ofNat_eq b _ (by omega)]
  | case4 a b c rest ih =>
    have ha := a.toNat_lt
    have hb := b.toNat_lt
    have hc := c.toNat_lt
    simp only [b64Encode]
    rw [quads_cons _ _ _ _ _ (b64Char_ne_eq (Nat.mod_lt _ (by decide)))]
    simp only [b64Val_b64Char (Nat.mod_lt _ (by decide : 64 > 0)), Option.bind_eq_bind, Option.bind_some, ih]
    rw [ofNat_eq a _ (by omega), ofNat_eq b _ (by omega), ofNat_eq c _ (by omega)]

theorem encode_no_crlf (b : Bytes) : ∀ c ∈ b64Encode b, (c != '\r' && c != '\n') = true := by
  induction b using b64Encode.induct with
  | case1 => simp [b64Encode]
  | case2 a =>
    simp only [b64Encode]
    intro c hc
    simp only [List.mem_cons, List.not_mem_nil, or_false] at hc
    rcases hc with rfl | rfl | rfl | rfl
    · simp [b64Char_ne_cr (Nat.mod_lt _ (by decide : 64 > 0)), b64Char_ne_lf (Nat.mod_lt _ (by decide : 64 > 0))]
    · simp [b64Char_ne_cr (Nat.mod_lt _ (by decide : 64 > 0)), b64Char_ne_lf (Nat.mod_lt _ (by decide : 64 > 0))]
    · decide
    · decide
  | case3 a b =>
    simp only [b64Encode]
    intro c hc
    simp only [List.mem_cons, List.not_mem_nil, or_false] at hc
    rcases hc with rfl | rfl | rfl | rfl
    · simp [b64Char_ne_cr (Nat.mod_lt _ (by decide : 64 > 0)), b64Char_ne_lf (Nat.mod_lt _ (by decide : 64 > 0))]
    · simp [b64Char_ne_cr (Nat.mod_lt _ (by decide : 64 > 0)), b64Char_ne_lf (Nat.mod_lt _ (by decide : 64 > 0))]
    · simp [b64Char_ne_cr (Nat.mod_lt _ (by decide : 64 > 0)), b64Char_ne_lf (Nat.mod_lt _ (by decide : 64 > 0))]
    · decide
  | case4 a b c rest ih =>
    simp only [b64Encode]
    intro c hc
    simp only [List.mem_cons] at hc
    rcases hc with rfl | rfl | rfl | rfl | hc
    · simp [b64Char_ne_cr (Nat.mod_lt _ (by decide : 64 > 0)), b64Char_ne_lf (Nat.mod_lt _ (by decide : 64 > 0))]
    · simp [b64Char_ne_cr (Nat.mod_lt _ (by decide : 64 > 0)), b64Char_ne_lf (Nat.mod_lt _ (by decide : 64 > 0))]
    · simp [b64Char_ne_cr (Nat.mod_lt _ (by decide : 64 > 0)), b64Char_ne_lf (Nat.mod_lt _ (by decide : 64 > 0))]
    · simp [b64Char_ne_cr (Nat.mod_lt _ (by decide : 64 > 0)), b64Char_ne_lf (Nat.mod_lt _ (by decide : 64 > 0))]
    · exact ih c hc

theorem b64Decode_b64Encode (b : Bytes) : b64Decode (b64Encode b) = some b := by
  unfold b64Decode
  rw [List.filter_eq_self.2 (encode_no_crlf b)]
  exact quads_roundtrip b

theorem u32be_length (x : UInt32) : (u32be x).length = 4 := rfl

/-! ### authenticateOrigin -/

theorem go_ok_iff (h : Str) (pats : List Str) :
    authenticateOrigin.go h pats = .ok ↔
      ∃ pre p post, pats = pre ++ p :: post ∧
            (∀ q ∈ pre, glob (toLower q) (toLower h) = .no) ∧ glob (toLower p) (toLower h) = .yes := by
  induction pats with
  | nil => simp [authenticateOrigin.go]
  | cons p ps ih =>
    simp only [authenticateOrigin.go]
    split
    · rename_i hb
      constructor
      · simp
      · rintro ⟨pre, p', post, he, hpre, hy⟩
        cases pre with
        | nil => simp at he; rw [he.1] at hb; rw [hb] at hy; cases hy
        | cons a pre => simp at he; have := hpre a (by simp); rw [← he.1, hb] at this; cases this
    · rename_i hy
      simp only [true_iff]
      exact ⟨[], p, ps, rfl, by simp, hy⟩
    · rename_i hn
      rw [ih]
      constructor
      · rintro ⟨pre, p', post, he, hpre, hy⟩
        refine ⟨p :: pre, p', post, by simp [he], ?_, hy⟩
        intro q hq
        simp at hq
        rcases hq with rfl | hq
        · exact hn
        · exact hpre q hq
      · rintro ⟨pre, p', post, he, hpre, hy⟩
        cases pre with
        | nil => simp at he; rw [he.1] at hn; rw [hn] at hy; cases hy
        | cons a pre =>
          simp at he
          exact ⟨pre, p', post, he.2, fun q hq => hpre q (by simp [hq]), hy⟩

theorem go_forbidden_of_all_no (h : Str) (pats : List Str)
    (hp : ∀ p ∈ pats, glob (toLower p) (toLower h) = .no) :
    authenticateOrigin.go h pats = .forbidden := by
  induction pats with
  | nil => simp [authenticateOrigin.go]
  | cons p ps ih =>
    simp only [authenticateOrigin.go]
    rw [hp p (by simp)]
    simp only
    exact ih (fun q hq => hp q (by simp [hq]))

/-! ### glob on plain patterns -/

theorem plain_ne {c : Char} (h : plainChar c = true) : c ≠ '*' ∧ c ≠ '?' ∧ c ≠ '[' ∧ c ≠ '\\' := by
  simpa [plainChar, and_assoc] using h

theorem scan_plain : ∀ (cs : Str) (inr : Bool) (acc : Str), (∀ c ∈ cs, plainChar c = true) →
    scanChunk.scan cs inr acc = (acc.reverse ++ cs, []) := by
  intro cs
  induction cs with
  | nil => intro inr acc _; simp [scanChunk.scan]
  | cons c cs ih =>
    intro inr acc h
    obtain ⟨h1, h2, h3, h4⟩ := plain_ne (h c (by simp))
    have hcs : ∀ c ∈ cs, plainChar c = true := fun d hd => h d (by simp [hd])
    unfold scanChunk.scan
    split
    · rename_i he; cases he
    · rename_i he; simp at he; exact absurd he.1 h4
    · rename_i he; simp at he; exact absurd he.1 h4
    · rename_i he; simp at he; exact absurd he.1 h3
    · rename_i he; simp at he; obtain ⟨rfl, rfl⟩ := he; rw [ih _ _ hcs]; simp
    · rename_i he; simp at he; exact absurd he.1 h1
    · rename_i he; simp at he; obtain ⟨rfl, rfl⟩ := he; rw [ih _ _ hcs]; simp

theorem scanChunk_plain (p : Str) (h : ∀ c ∈ p, plainChar c = true) : scanChunk p = (false, p, []) := by
  unfold scanChunk
  have hd : scanChunk.dropStars p false = (p, false) := by
    cases p with
    | nil => simp [scanChunk.dropStars]
    | cons c cs =>
      obtain ⟨h1, -⟩ := plain_ne (h c (by simp))
      unfold scanChunk.dropStars
      split
      · rename_i he; simp at he; exact absurd he.1 h1
      · rfl
  simp only [hd, scan_plain p false [] h]
  simp

theorem matchChunk_plain : ∀ (chunk : Str) (fuel : Nat) (s : Str) (failed : Bool),
    (∀ c ∈ chunk, plainChar c = true) → chunk.length < fuel →
    matchChunk fuel chunk s failed =
      if failed then .fail else if chunk.isPrefixOf s then .ok (s.drop chunk.length) else .fail := by
  intro chunk
  induction chunk with
  | nil =>
    intro fuel s failed _ hf
    cases fuel with
    | zero => omega
    | succ fuel => cases failed <;> simp [matchChunk]
  | cons c cs ih =>
    intro fuel s failed h hf
    obtain ⟨h1, h2, h3, h4⟩ := plain_ne (h c (by simp))
    have hcs : ∀ c ∈ cs, plainChar c = true := fun d hd => h d (by simp [hd])
    cases fuel with
    | zero => omega
    | succ fuel =>
      have hf' : cs.length < fuel := by simp at hf; omega
      simp only [matchChunk, beq_iff_eq, h2, h3, h4, if_false]
      cases failed with
      | true => simp [ih fuel s true hcs hf']
      | false =>
        cases s with
        | nil => simp [ih fuel [] true hcs hf']
        | cons d ds =>
          simp [ih fuel ds _ hcs hf']
          by_cases hcd : c = d
          · subst hcd; simp
          · simp [hcd]


theorem prefix_drop_nil : ∀ (p name : Str), (p.isPrefixOf name = true ∧ (name.drop p.length).isEmpty = true) ↔ name = p := by
  intro p
  induction p with
  | nil => intro name; simp [List.isEmpty_iff]
  | cons c cs ih =>
    intro name
    cases name with
    | nil => simp
    | cons d ds =>
      simp only [List.isPrefixOf, Bool.and_eq_true, beq_iff_eq, List.length_cons, List.drop_succ_cons, List.cons.injEq]
      rw [and_assoc, ih ds]
      constructor
      · rintro ⟨rfl, rfl⟩; exact ⟨rfl, rfl⟩
      · rintro ⟨rfl, rfl⟩; exact ⟨rfl, rfl⟩

theorem glob_plain (p name : Str) (hp : ∀ c ∈ p, plainChar c = true) :
    glob p name = (if name = p then .yes else .no) := by
  unfold glob
  cases p with
  | nil =>
    cases name <;> simp [globMatch]
  | cons c cs =>
    have hm := matchChunk_plain (c :: cs) ((c :: cs).length + 2) name false hp (by omega)
    simp only [globMatch, scanChunk_plain (c :: cs) hp, List.isEmpty_cons, Bool.false_and, hm]
    by_cases hpre : (c :: cs).isPrefixOf name = true
    · by_cases hd : (name.drop (c :: cs).length).isEmpty = true
      · have := (prefix_drop_nil (c :: cs) name).1 ⟨hpre, hd⟩
        simp [this]
      · have hne : name ≠ c :: cs := fun h => hd ((prefix_drop_nil (c :: cs) name).2 h).2
        have hd' : (List.drop (cs.length + 1) name).isEmpty = false := by simpa using hd
        simp only [hpre, if_true, Bool.false_eq_true, if_false, List.isEmpty_nil, Bool.not_true, Bool.or_false, List.length_cons, hd', if_neg hne]
    · have hne : name ≠ c :: cs := fun h => hpre ((prefix_drop_nil (c :: cs) name).2 h).1
      simp [hpre, hne]

theorem glob_star (name : Str) :
    glob ['*'] name = (if name.contains '/' then .no else .yes) := by
  have h : scanChunk ['*'] = (true, [], []) := by decide
  simp [glob, globMatch, h]

end WS.Proofs.Handshake
