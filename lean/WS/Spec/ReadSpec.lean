import WS.Model.Reader
/-
  Reference semantics of the read side, written from RFC 6455 §5 (not from the code):
  which headers are acceptable, which frame sequences are valid, and what a valid sequence
  means (messages = concatenated fragments, every Ping answered by a Pong with the same
  payload, Pongs ignored).
-/
namespace WS.Spec
open WS WS.Model

/-- RFC 6455 §5.2/§5.5 conditions on a received frame header for an endpoint with `cfg`. -/
def HeaderOK (cfg : RCfg) (h : Header) : Prop :=
  h.rsv2 = false ∧ h.rsv3 = false ∧
  (h.rsv1 = true → cfg.flate = true ∧ (h.opcode = opText ∨ h.opcode = opBinary)) ∧
  (h.masked = !cfg.client) ∧
  (h.opcode = 0 ∨ h.opcode = 1 ∨ h.opcode = 2 ∨ h.opcode = 8 ∨ h.opcode = 9 ∨ h.opcode = 10) ∧
  (8 ≤ h.opcode → h.len ≤ 125 ∧ h.fin = true)

/-- a message in progress: its type and the bytes received so far. -/
abbrev Pending := Option (Nat × Bytes)

/-- meaning of one frame of a valid uncompressed sequence. -/
def specStep (p : Pending) (f : Frame) : List Ev × Pending :=
  if f.h.opcode = opPing then ([.reply opPong f.data], p)
  else if f.h.opcode = opPong then ([], p)
  else
    match p with
    | none => if f.h.fin then ([.msg f.h.opcode f.data], none) else ([], some (f.h.opcode, f.data))
    | some (typ, acc) =>
      if f.h.fin then ([.msg typ (acc ++ f.data)], none) else ([], some (typ, acc ++ f.data))

def specRun : Pending → List Frame → List Ev × Pending
  | p, [] => ([], p)
  | p, f :: fs =>
    let r := specStep p f
    let r' := specRun r.2 fs
    (r.1 ++ r'.1, r'.2)

/-- a valid sequence of uncompressed frames (no Close), relative to the message in progress, whose
messages fit the read limit `L` (`L < 0` = unlimited). -/
def ValidSeq (cfg : RCfg) (L : Int) : Pending → List Frame → Prop
  | _, [] => True
  | p, f :: fs =>
    HeaderOK cfg f.h ∧ f.h.rsv1 = false ∧ f.h.opcode ≠ opClose ∧
    (f.h.opcode ≤ 2 →
      (match p with
       | none => (f.h.opcode = opText ∨ f.h.opcode = opBinary) ∧ (L < 0 ∨ (f.data.length : Int) ≤ L)
       | some (_, acc) => f.h.opcode = opCont ∧ (L < 0 ∨ ((acc.length + f.data.length : Nat) : Int) ≤ L))) ∧
    ValidSeq cfg L (specStep p f).2 fs

/-- reader state corresponding to a pending message under limit `L`. -/
def stateOf (L : Int) (dict : Bytes) (idx : Nat) : Pending → RState
  | none => { mode := .idle, dict := dict, idx := idx }
  | some (typ, acc) =>
    { mode := .plain typ acc (if L < 0 then -1 else L + 1 - acc.length), dict := dict, idx := idx }

def isMsg : Ev → Bool
  | .msg _ _ => true
  | _ => false

def isFailure : Ev → Bool
  | .fail _ => true
  | .partialMsg _ _ _ _ => true
  | _ => false

end WS.Spec
