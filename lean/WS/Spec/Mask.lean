import WS.Basic
/-
  Reference specification of WebSocket masking (RFC 6455 §5.3), written from the RFC and
  from the documented contract of `mask` ("returns the key rotated"), not from the code:
  byte i of the buffer is XOR-ed with byte (i mod 4) of the key, where key byte j is byte
  j of the little-endian 32-bit key; the returned key is the key rotated right by
  8 * (length mod 4) bits so that masking may be continued on the next piece.
-/
namespace WS.Spec

/-- byte `j mod 4` of the little-endian key. -/
def keyByte (key : UInt32) (j : Nat) : UInt8 :=
  ⟨key.toBitVec.extractLsb' (8 * (j % 4)) 8⟩

/-- `bits.RotateLeft32(key, -8)`. -/
def rotr8 (key : UInt32) : UInt32 := ⟨(key.toBitVec >>> 8) ||| (key.toBitVec <<< 24)⟩

def rotrBytes (key : UInt32) : Nat → UInt32
  | 0 => key
  | n + 1 => rotrBytes (rotr8 key) n

/-- XOR byte at absolute position `i + k` with key byte `(i + k) mod 4`. -/
def maskFrom (key : UInt32) : Nat → Bytes → Bytes
  | _, [] => []
  | i, x :: xs => (x ^^^ keyByte key i) :: maskFrom key (i + 1) xs

/-- The masking transform: masked bytes and the key to continue with. -/
def mask (key : UInt32) (b : Bytes) : Bytes × UInt32 :=
  (maskFrom key 0 b, rotrBytes key (b.length % 4))

end WS.Spec
