import WS.Model.Writer
import WS.Model.Reader
/-
  Reference conditions on an emitted frame sequence, written from RFC 6455 §5 and RFC 7692 §6–7
  (not from the code), and the meaning of a write program (what the peer must receive).
-/
namespace WS.Spec
open WS WS.Model

/-- Close payload allowed on the wire: empty, or a sendable status code followed by at most 123 bytes. -/
def closePayloadOK (d : Bytes) : Bool :=
  match d with
  | [] => true
  | [_] => false
  | b0 :: b1 :: r => validWireCloseCode ((b0.toNat * 256 + b1.toNat : Nat) : Int) && decide (r.length ≤ 123)

/-- RFC conformance of a frame sequence emitted by an endpoint (`client`: frames must be masked;
`flate`: permessage-deflate was negotiated). `inMsg`: a fragmented message is in progress. -/
def conformant (client flate : Bool) : Bool → List Frame → Bool
  | _, [] => true
  | inMsg, f :: fs =>
    let h := f.h
    let common := (h.masked == client) && (!h.masked || h.key.length == 4) && (h.masked || h.key.isEmpty) &&
      !h.rsv2 && !h.rsv3 && (f.payload.length == h.len) && decide (h.len < 2 ^ 63)
    if h.opcode == opClose || h.opcode == opPing || h.opcode == opPong then
      common && h.fin && decide (h.len ≤ 125) && !h.rsv1 &&
        (h.opcode != opClose || closePayloadOK f.data) && conformant client flate inMsg fs
    else if h.opcode == opText || h.opcode == opBinary then
      common && !inMsg && (!h.rsv1 || flate) && conformant client flate (!h.fin) fs
    else if h.opcode == opCont then
      common && inMsg && !h.rsv1 && conformant client flate (!h.fin) fs
    else false

/-- what the peer must observe for one API call. -/
def opEvents : WOp → List Ev
  | .msg typ _ chunks _ => [.msg typ chunks.flatten]
  | .ping p => [.reply opPong p]
  | .pong _ => []
  | .close _ _ => []

def isClose : WOp → Bool
  | .close _ _ => true
  | _ => false

/-- control payloads an API call can produce are at most 125 bytes. -/
def ctlOK : WOp → Prop
  | .ping p => p.length ≤ 125
  | .pong p => p.length ≤ 125
  | _ => True

/-- well-formed API calls: a message is text or binary, and `Conn.Write` passes exactly one buffer. -/
def opWF : WOp → Prop
  | .msg typ viaWriter chunks _ => (typ = opText ∨ typ = opBinary) ∧ (viaWriter = false → ∃ p, chunks = [p])
  | _ => True

/-- The codec law, as a hypothesis about the observed compressed chunks: each compressed message's
chunks, followed by the deflate tail, inflate (with the receiver's dictionary) to what was written.
`dict` is the receiver's dictionary before the first message. -/
def CodecOK (inf : Inflate) (wcfg : WCfg) (rtakeover : Bool) : Bytes → List WOp → Prop
  | _, [] => True
  | dict, .msg _ _ chunks obs :: ops =>
    if compresses wcfg chunks then
      inf dict (obs.flatten ++ deflateTail) = { plain := chunks.flatten, ok := true } ∧
      CodecOK inf wcfg rtakeover (if rtakeover then slide dict chunks.flatten else dict) ops
    else CodecOK inf wcfg rtakeover dict ops
  | dict, _ :: ops => CodecOK inf wcfg rtakeover dict ops

/-- enough well-formed mask keys for `n` frames. -/
def KeysOK (keys : List Bytes) (n : Nat) : Prop := n ≤ keys.length ∧ ∀ k ∈ keys, k.length = 4

end WS.Spec
