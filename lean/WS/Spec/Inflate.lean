import WS.Basic
/-
  Reference DEFLATE decoder written from RFC 1951 (stored, fixed-Huffman and dynamic-Huffman
  blocks, preset dictionary).  It is the independent decoder for compressed messages; it is
  compared with Go's compress/flate on every compressed payload the checks see.
  Total (explicit fuel), core Lean only.
-/
namespace WS.Spec

inductive InfStatus
  | final       -- a block with BFINAL=1 was decoded completely
  | needMore    -- the input ended (at a block boundary or inside a block)
  | corrupt     -- the input is not a DEFLATE stream
  deriving Repr, DecidableEq

structure Huff where
  count : Array Nat     -- count[len] = number of codes of that length (index 0..15)
  symbol : Array Nat    -- symbols ordered by code
  deriving Repr

/-- build a canonical Huffman table from code lengths; `none` if over-subscribed. Incomplete
codes are accepted where RFC 1951 / zlib accept them (single distance code). -/
def mkHuff (lengths : Array Nat) : Option Huff := Id.run do
  let mut count : Array Nat := Array.replicate 16 0
  for l in lengths do
    count := count.modify l (· + 1)
  -- over-subscription check
  let mut left : Int := 1
  let mut bad := false
  for len in [1:16] do
    left := left * 2 - ((count.getD (len) 0) : Int)
    if left < 0 then bad := true
  if bad then return none
  let mut offs : Array Nat := Array.replicate 16 0
  for len in [1:15] do
    offs := offs.set! (len + 1) ((offs.getD (len) 0) + (count.getD (len) 0))
  let mut symbol : Array Nat := Array.replicate lengths.size 0
  for sym in [0:lengths.size] do
    let l := (lengths.getD (sym) 0)
    if l != 0 then
      symbol := symbol.set! (offs.getD (l) 0) sym
      offs := offs.modify l (· + 1)
  return some { count := count, symbol := symbol }

structure BR where
  data : ByteArray
  pos : Nat            -- bit position
  deriving Inhabited

def BR.bit? (r : BR) : Option (Nat × BR) :=
  let i := r.pos / 8
  if i < r.data.size then
    some (((r.data.get! i).toNat >>> (r.pos % 8)) % 2, { r with pos := r.pos + 1 })
  else none

def BR.bits? (r : BR) (n : Nat) : Option (Nat × BR) := Id.run do
  let mut v := 0
  let mut rr := r
  for k in [0:n] do
    match rr.bit? with
    | none => return none
    | some (b, r2) =>
      v := v + (b <<< k)
      rr := r2
  return some (v, rr)

inductive Dec
  | sym (s : Nat) (r : BR)
  | eof
  | bad

def decodeSym (h : Huff) (r : BR) : Dec := Id.run do
  let mut code : Int := 0
  let mut first : Int := 0
  let mut index : Int := 0
  let mut rr := r
  for len in [1:16] do
    match rr.bit? with
    | none => return .eof
    | some (b, r2) =>
      rr := r2
      code := code + b
      let cnt : Int := (h.count.getD (len) 0)
      if code - cnt < first then
        return .sym ((h.symbol.getD ((index + (code - first)).toNat) 0)) rr
      index := index + cnt
      first := (first + cnt) * 2
      code := code * 2
  return .bad

def lenBase : Array Nat := #[3,4,5,6,7,8,9,10,11,13,15,17,19,23,27,31,35,43,51,59,67,83,99,115,131,163,195,227,258]
def lenExtra : Array Nat := #[0,0,0,0,0,0,0,0,1,1,1,1,2,2,2,2,3,3,3,3,4,4,4,4,5,5,5,5,0]
def distBase : Array Nat := #[1,2,3,4,5,7,9,13,17,25,33,49,65,97,129,193,257,385,513,769,1025,1537,2049,3073,4097,6145,8193,12289,16385,24577]
def distExtra : Array Nat := #[0,0,0,0,1,1,2,2,3,3,4,4,5,5,6,6,7,7,8,8,9,9,10,10,11,11,12,12,13,13]
def clOrder : Array Nat := #[16,17,18,0,8,7,9,6,10,5,11,4,12,3,13,2,14,1,15]

def fixedLit : Huff :=
  (mkHuff (Array.replicate 144 8 ++ Array.replicate 112 9 ++ Array.replicate 24 7 ++ Array.replicate 8 8)).getD ⟨#[], #[]⟩
def fixedDist : Huff := (mkHuff (Array.replicate 30 5)).getD ⟨#[], #[]⟩

structure St where
  r : BR
  out : ByteArray
  deriving Inhabited

inductive BlockRes
  | ok (s : St)
  | eof (s : St)
  | bad (s : St)

/-- decode the symbols of one compressed block. Fuel bounds the number of symbols. -/
def codes (lit dist : Huff) : Nat → St → BlockRes
  | 0, s => .bad s
  | fuel + 1, s =>
    match decodeSym lit s.r with
    | .eof => .eof s
    | .bad => .bad s
    | .sym sym r1 =>
      if sym < 256 then codes lit dist fuel { r := r1, out := s.out.push (UInt8.ofNat sym) }
      else if sym == 256 then .ok { s with r := r1 }
      else
        let li := sym - 257
        if li ≥ 29 then .bad s
        else
          match r1.bits? (lenExtra.getD (li) 0) with
          | none => .eof s
          | some (eb, r2) =>
            let len := (lenBase.getD (li) 0) + eb
            match decodeSym dist r2 with
            | .eof => .eof s
            | .bad => .bad s
            | .sym ds r3 =>
              if ds ≥ 30 then .bad s
              else
                match r3.bits? (distExtra.getD (ds) 0) with
                | none => .eof s
                | some (db, r4) =>
                  let d := (distBase.getD (ds) 0) + db
                  if d > s.out.size then .bad s
                  else
                    let out := Id.run do
                      let mut o := s.out
                      for _ in [0:len] do
                        o := o.push (o.get! (o.size - d))
                      return o
                    codes lit dist fuel { r := r4, out := out }

def dynamicTables (r : BR) : Option (Option (Huff × Huff × BR)) := do
  -- outer none = eof, inner none = bad
  let (hlit, r) ← r.bits? 5
  let (hdist, r) ← r.bits? 5
  let (hclen, r) ← r.bits? 4
  let nlen := hlit + 257
  let ndist := hdist + 1
  let ncode := hclen + 4
  if nlen > 286 || ndist > 30 then return none
  let mut lengths := Array.replicate 19 0
  let mut rr := r
  for i in [0:ncode] do
    let (v, r2) ← rr.bits? 3
    lengths := lengths.set! (clOrder.getD (i) 0) v
    rr := r2
  match mkHuff lengths with
  | none => return none
  | some clh =>
    let mut ls : Array Nat := #[]
    let mut bad := false
    let mut eof := false
    -- at most nlen + ndist symbols are needed
    for _ in [0:nlen + ndist] do
      if ls.size < nlen + ndist && !bad && !eof then
        match decodeSym clh rr with
        | .eof => eof := true
        | .bad => bad := true
        | .sym sym r2 =>
          rr := r2
          if sym < 16 then ls := ls.push sym
          else
            let (prev, nb, base) :=
              if sym == 16 then ((if ls.size == 0 then none else some (ls.getD (ls.size - 1) 0)), 2, 3)
              else if sym == 17 then (some 0, 3, 3) else (some 0, 7, 11)
            match prev with
            | none => bad := true
            | some pv =>
              match rr.bits? nb with
              | none => eof := true
              | some (rep, r3) =>
                rr := r3
                if ls.size + base + rep > nlen + ndist then bad := true
                else
                  for _ in [0:base + rep] do
                    ls := ls.push pv
    if eof then none
    else if bad || ls.size != nlen + ndist then return none
    else if (ls.getD (256) 0) == 0 then return none
    else
      match mkHuff (ls.extract 0 nlen), mkHuff (ls.extract nlen (nlen + ndist)) with
      | some l, some d => return some (l, d, rr)
      | _, _ => return none

/-- decode blocks until a final block, the end of input or corruption. -/
def blocks : Nat → St → InfStatus × St
  | 0, s => (.corrupt, s)
  | fuel + 1, s =>
    match s.r.bits? 3 with
    | none => (.needMore, s)
    | some (hdr, r1) =>
      let final := hdr % 2 == 1
      let typ := hdr / 2
      let cont (res : BlockRes) : InfStatus × St :=
        match res with
        | .ok s' => if final then (.final, s') else blocks fuel s'
        | .eof s' => (.needMore, s')
        | .bad s' => (.corrupt, s')
      if typ == 0 then
        -- stored: skip to byte boundary, LEN, NLEN
        let p := (r1.pos + 7) / 8
        if p + 4 > r1.data.size then (.needMore, s)
        else
          let len := (r1.data.get! p).toNat + 256 * (r1.data.get! (p + 1)).toNat
          let nlen := (r1.data.get! (p + 2)).toNat + 256 * (r1.data.get! (p + 3)).toNat
          if len + nlen != 65535 then (.corrupt, s)
          else
            let avail := r1.data.size - (p + 4)
            let take := if avail < len then avail else len
            let out := s.out ++ r1.data.extract (p + 4) (p + 4 + take)
            let s' : St := { r := { r1 with pos := 8 * (p + 4 + take) }, out := out }
            if take < len then (.needMore, s')
            else cont (.ok s')
      else if typ == 1 then
        cont (codes fixedLit fixedDist (8 * s.r.data.size + 8) { s with r := r1 })
      else if typ == 2 then
        match dynamicTables r1 with
        | none => (.needMore, s)
        | some none => (.corrupt, s)
        | some (some (l, d, r2)) => cont (codes l d (8 * s.r.data.size + 8) { s with r := r2 })
      else (.corrupt, s)

/-- inflate `z` with preset dictionary `dict`. Returns the status and the plaintext produced. -/
def inflate (dict : Bytes) (z : Bytes) : InfStatus × Bytes :=
  let d := ByteArray.mk dict.toArray
  let r := blocks (z.length + 2) { r := { data := ByteArray.mk z.toArray, pos := 0 }, out := d }
  (r.1, (r.2.out.extract d.size r.2.out.size).toList)

end WS.Spec
