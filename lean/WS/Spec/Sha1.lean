import WS.Basic
/-
  SHA-1 (FIPS 180-4) and base64 (RFC 4648 §4, standard alphabet with padding), written from the
  standards; they define `Sec-WebSocket-Accept` (RFC 6455 §4.2.2) and are compared with Go's
  crypto/sha1 and encoding/base64 on every key the checks use.
-/
namespace WS.Spec
open WS

def rotl32 (x : UInt32) (n : UInt32) : UInt32 := (x <<< n) ||| (x >>> (32 - n))

def be32 (b : Bytes) : UInt32 :=
  match b with
  | [a, b, c, d] => (a.toUInt32 <<< 24) ||| (b.toUInt32 <<< 16) ||| (c.toUInt32 <<< 8) ||| d.toUInt32
  | _ => 0

def u32be (x : UInt32) : Bytes := [(x >>> 24).toUInt8, (x >>> 16).toUInt8, (x >>> 8).toUInt8, x.toUInt8]

def sha1Pad (msg : Bytes) : Bytes :=
  let l := msg.length
  let k := (119 - l % 64) % 64       -- zero bytes so that l + 1 + k + 8 ≡ 0 mod 64
  let bits := 8 * l
  msg ++ [0x80] ++ List.replicate k 0 ++
    [UInt8.ofNat (bits / 2^56 % 256), UInt8.ofNat (bits / 2^48 % 256), UInt8.ofNat (bits / 2^40 % 256), UInt8.ofNat (bits / 2^32 % 256),
     UInt8.ofNat (bits / 2^24 % 256), UInt8.ofNat (bits / 2^16 % 256), UInt8.ofNat (bits / 2^8 % 256), UInt8.ofNat (bits % 256)]

def chunksOf (n : Nat) : Nat → Bytes → List Bytes
  | 0, _ => []
  | fuel + 1, b => if b.isEmpty then [] else b.take n :: chunksOf n fuel (b.drop n)

structure Sha1State where
  h0 : UInt32
  h1 : UInt32
  h2 : UInt32
  h3 : UInt32
  h4 : UInt32

def sha1Block (st : Sha1State) (block : Bytes) : Sha1State := Id.run do
  let mut w : Array UInt32 := ((chunksOf 4 16 block).map be32).toArray
  for t in [16:80] do
    w := w.push (rotl32 (w[t-3]! ^^^ w[t-8]! ^^^ w[t-14]! ^^^ w[t-16]!) 1)
  let mut a := st.h0
  let mut b := st.h1
  let mut c := st.h2
  let mut d := st.h3
  let mut e := st.h4
  for t in [0:80] do
    let (f, k) : UInt32 × UInt32 :=
      if t < 20 then ((b &&& c) ||| ((~~~ b) &&& d), 0x5A827999)
      else if t < 40 then (b ^^^ c ^^^ d, 0x6ED9EBA1)
      else if t < 60 then ((b &&& c) ||| (b &&& d) ||| (c &&& d), 0x8F1BBCDC)
      else (b ^^^ c ^^^ d, 0xCA62C1D6)
    let tmp := rotl32 a 5 + f + e + k + w[t]!
    e := d
    d := c
    c := rotl32 b 30
    b := a
    a := tmp
  return { h0 := st.h0 + a, h1 := st.h1 + b, h2 := st.h2 + c, h3 := st.h3 + d, h4 := st.h4 + e }

def sha1 (msg : Bytes) : Bytes :=
  let p := sha1Pad msg
  let st := (chunksOf 64 (p.length / 64 + 1) p).foldl sha1Block
    { h0 := 0x67452301, h1 := 0xEFCDAB89, h2 := 0x98BADCFE, h3 := 0x10325476, h4 := 0xC3D2E1F0 }
  u32be st.h0 ++ u32be st.h1 ++ u32be st.h2 ++ u32be st.h3 ++ u32be st.h4

def b64Alphabet : Array Char :=
  "ABCDEFGHIJKLMNOPQRSTUVWXYZabcdefghijklmnopqrstuvwxyz0123456789+/".toList.toArray

def b64Char (n : Nat) : Char := b64Alphabet.getD n '?'

def b64Encode : Bytes → List Char
  | [] => []
  | [a] =>
    let n := a.toNat * 65536
    [b64Char (n / 262144 % 64), b64Char (n / 4096 % 64), '=', '=']
  | [a, b] =>
    let n := a.toNat * 65536 + b.toNat * 256
    [b64Char (n / 262144 % 64), b64Char (n / 4096 % 64), b64Char (n / 64 % 64), '=']
  | a :: b :: c :: rest =>
    let n := a.toNat * 65536 + b.toNat * 256 + c.toNat
    b64Char (n / 262144 % 64) :: b64Char (n / 4096 % 64) :: b64Char (n / 64 % 64) :: b64Char (n % 64) :: b64Encode rest

def b64Val (c : Char) : Option Nat :=
  if 'A' ≤ c ∧ c ≤ 'Z' then some (c.toNat - 65)
  else if 'a' ≤ c ∧ c ≤ 'z' then some (c.toNat - 71)
  else if '0' ≤ c ∧ c ≤ '9' then some (c.toNat + 4)
  else if c == '+' then some 62
  else if c == '/' then some 63
  else none

/-- strict decoding of padded standard base64 (Go's StdEncoding.DecodeString additionally skips
'\r' and '\n'; the caller removes them first). Trailing bits must be zero? Go does not require it
(Strict mode is off), so neither does this decoder. -/
def b64DecodeQuads : List Char → Option Bytes
  | [] => some []
  | [a, b, '=', '='] => do
    let x ← b64Val a
    let y ← b64Val b
    some [UInt8.ofNat ((x * 64 + y) / 16)]
  | [a, b, c, '='] => do
    let x ← b64Val a
    let y ← b64Val b
    let z ← b64Val c
    let n := (x * 64 + y) * 64 + z
    some [UInt8.ofNat (n / 1024), UInt8.ofNat (n / 4 % 256)]
  | a :: b :: c :: d :: rest => do
    let x ← b64Val a
    let y ← b64Val b
    let z ← b64Val c
    let w ← b64Val d
    let n := ((x * 64 + y) * 64 + z) * 64 + w
    let r ← b64DecodeQuads rest
    some (UInt8.ofNat (n / 65536) :: UInt8.ofNat (n / 256 % 256) :: UInt8.ofNat (n % 256) :: r)
  | _ => none

def b64Decode (s : List Char) : Option Bytes :=
  b64DecodeQuads (s.filter (fun c => c != '\r' && c != '\n'))

end WS.Spec
