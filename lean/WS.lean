import WS.Basic
