#!/usr/bin/env python3
"""The synchronisation skeleton of nhooyr/websocket (conn.go, read.go, write.go, close.go) as a CIR
program, written by hand function by function, in continuation-passing style, and assembled here
into WS/Gen/ConnCIR.lean together with the certificates of the analyses (computed by forward
dataflow below, *checked* by the Lean kernel).

Each emitted primitive carries the Go function it models (`src`), so that /verif/extract can compare
the per-function list of synchronisation primitives it finds in the Go source with the list used here
(WS/Gen/Skeleton.lean, obligation in WS/Props/CIRTie.lean).
"""
import sys

# ---- ids ----
R, W, M, WM, CM = 0, 1, 2, 3, 4               # readMu, writeFrameMu, msgWriter.mu, msgWriter.writeMu, closeMu
LOCKNAME = {R: "readMu", W: "writeFrameMu", M: "msgWriter.mu", WM: "msgWriter.writeMu", CM: "closeMu"}
CLOSED, CLOSING, CS, PEERCLOSED, CR = 0, 1, 2, 3, 4
FLAGNAME = {CLOSED: "closed", CLOSING: "closing", CS: "closeSent", PEERCLOSED: "peerClosed", CR: "closeRead"}
RT, WT = 0, 1
TLD, CRD, CLOSEDCH = 0, 1, 2
# frame classes
FIRST, SINGLE, CONT, CONTFIN, PING, PONG, CLOSE = 1, 2, 3, 4, 5, 6, 7
BEGIN, CHUNK, END = 0, 1, 2


# What each Go function contributes to the skeleton, written next to the code that models it below.
# /verif/extract finds the same vocabulary in the Go source (WS/Gen/Skeleton.lean); WS/Props/CIRTie.lean
# demands equality, so an edit of the synchronisation structure of the Go code is noticed.
SKELETON = {
    "newConn": ["spawn timeoutLoop"],
    "mu.lock": ["recv closed", "send ch", "unlock self"],          # = CIR instruction `lock`
    "mu.forceLock": ["send ch"], "mu.tryLock": ["send ch"], "mu.unlock": ["recv ch"],
    "Conn.timeoutLoop": ["defer-signal timeoutLoopDone", "recv closed", "slot received", "call close"],
    "Conn.close": ["forceLock closeMu", "defer-unlock closeMu", "test closed", "set closed", "close transport",
                   "call msgWriter.close", "call msgReader.close"],
    "msgWriter.close": ["forceLock writeFrameMu", "forceLock msgWriter.writeMu"],
    "msgReader.close": ["forceLock readMu"],
    "Conn.casClosing": ["forceLock closeMu", "defer-unlock closeMu", "test closing", "set closing"],   # = CIR instruction `cas`
    "Conn.writeFrame": ["lock writeFrameMu", "defer-unlock writeFrameMu", "test closeSent", "recv closed", "arm write own",
                        "set closeSent", "wr header", "call writeFramePayload", "wr flush", "arm write bg"],
    "Conn.writeFramePayload": ["wr payload", "wr flush"],
    "Conn.writeControl": ["call writeFrame"],
    "Conn.writeClose": ["call writeControl"],
    "Conn.writeError": ["call writeClose"],
    "Conn.readFrameHeader": ["recv closed", "arm read own", "io read", "arm read bg"],
    "Conn.readFramePayload": ["recv closed", "arm read own", "io read", "arm read bg"],
    "Conn.handleControl": ["call writeError", "call readFramePayload", "call writeControl", "call writeClose", "set peerClosed"],
    "Conn.readLoop": ["call readFrameHeader", "call writeError", "call handleControl"],
    "Conn.readUnlock": ["test peerClosed", "unlock readMu", "call close"],
    "Conn.reader": ["lock readMu", "defer-call readUnlock", "call readLoop", "call writeError"],
    "Conn.Reader": ["call reader"],
    "Conn.Read": ["call Reader"],
    "msgReader.Read": ["lock readMu", "defer-call readUnlock", "call limitReader.Read"],
    "limitReader.Read": ["call writeError", "call msgReader.read"],
    "msgReader.read": ["call readLoop", "call writeError", "call readFramePayload"],
    "Conn.Write": ["call write"], "Conn.Writer": ["call writer"], "Conn.writer": ["call msgWriter.reset"],
    "Conn.write": ["call writer", "defer-unlock msgWriter.mu", "call writeFrame", "call msgWriter.Write", "call msgWriter.Close"],
    "msgWriter.reset": ["lock msgWriter.mu"],
    "msgWriter.Write": ["lock msgWriter.writeMu", "defer-unlock msgWriter.writeMu", "call msgWriter.write"],
    "msgWriter.write": ["call writeFrame"],
    "msgWriter.Close": ["lock msgWriter.writeMu", "defer-unlock msgWriter.writeMu", "call msgWriter.write", "call writeFrame", "unlock msgWriter.mu"],
    "Conn.Ping": ["call ping"],
    "Conn.ping": ["call writeControl", "recv closed"],
    "Conn.Close": ["call casClosing", "call waitGoroutines", "call closeHandshake", "call close"],
    "Conn.CloseNow": ["call casClosing", "call close", "call waitGoroutines"],
    "Conn.closeHandshake": ["call writeClose", "call waitCloseHandshake"],
    "Conn.waitCloseHandshake": ["lock readMu", "defer-call readUnlock", "test peerClosed", "call discardPayload", "call readLoop"],
    "Conn.discardPayload": ["call readFramePayload"],
    "Conn.waitGoroutines": ["timer", "await timeoutLoopDone", "test closeRead", "await closeReadDone", "recv closed"],
    "Conn.CloseRead": ["test closeRead", "set closeRead", "spawn CloseRead.func1"],
    "Conn.CloseRead.func1": ["defer-signal closeReadDone", "defer-call close", "call Reader", "call casClosing", "call closeHandshake"],
}


def kind(cls, piece):
    return 10 * cls + piece


class B:
    def __init__(self):
        self.code = []
        self.src = []
        self.entries = {}
        self.boot = []

    def add(self, instr, src):
        self.code.append(instr)
        self.src.append(src)
        return len(self.code) - 1

    def new(self):
        return self.add(None, None)

    def put(self, n, instr, src):
        assert self.code[n] is None
        self.code[n] = instr
        self.src[n] = src


def done(b, ok, src):
    return b.add(("done", ok), (src, None))


# ---------------- write.go ----------------

def writeFrame(b, cls, kOk, kErr, fn="writeFrame", kErrPost=None):
    """Conn.writeFrame for a frame of class `cls`. Returns the entry node.
    kErrPost: where the caller continues when the frame was written completely but the connection
    was found closed afterwards (the same Go return as any other error; a separate node here because
    the message-bracket state differs)."""
    uOk = b.add(("unlock", W, kOk), (fn, "defer-unlock writeFrameMu"))
    uErr = b.add(("unlock", W, kErr), (fn, None))
    uErrPost = uErr if kErrPost is None else b.add(("unlock", W, kErrPost), (fn, None))
    # final select: closed (close frame counts as written) or re-arm Background
    rearm = b.add(("arm", WT, False, uOk, uOk if cls == CLOSE else uErrPost), (fn, "arm write bg"))
    end = b.add(("wr", kind(cls, END), rearm, uErr), (fn, "wr flush"))
    pay = b.new()
    chunk = b.add(("wr", kind(cls, CHUNK), pay, uErr), (fn, "wr payload"))
    b.put(pay, ("branch", [chunk, end]), (fn, None))
    begin = b.add(("wr", kind(cls, BEGIN), pay, uErr), (fn, "wr header"))
    nxt = begin
    if cls == CLOSE:
        nxt = b.add(("set", CS, True, begin), (fn, "set closeSent"))
    armed = b.add(("arm", WT, True, nxt, uErr), (fn, "arm write own"))
    ent = armed
    if cls not in (PING, PONG):
        ent = b.add(("test", CS, uErr, armed), (fn, "test closeSent"))
    return b.add(("lock", W, ent, kErr), (fn, "lock writeFrameMu"))


def writeClose(b, kOk, kErr):
    """writeClose: marshal (may fail), writeControl(opClose); a net.ErrClosed result is ignored."""
    ign = b.add(("branch", [kOk, kErr]), ("writeClose", None))
    wf = writeFrame(b, CLOSE, kOk, ign)
    return b.add(("branch", [wf, kErr]), ("writeClose", "call writeControl"))


def writeError(b, k):
    return writeClose(b, k, k)


def connClose(b, k):
    """Conn.close()"""
    u2 = b.add(("unlock", CM, k), ("Conn.close", "defer-unlock closeMu"))
    # msgReader.close: forceLock readMu (never released)
    mr = b.add(("forceLock", R, u2), ("msgReader.close", "forceLock readMu"))
    # msgWriter.close: client only forceLock writeFrameMu; forceLock writeMu
    mw2 = b.add(("forceLock", WM, mr), ("msgWriter.close", "forceLock msgWriter.writeMu"))
    mw1 = b.add(("forceLock", W, mw2), ("msgWriter.close", "forceLock writeFrameMu"))
    mw = b.add(("branch", [mw1, mw2]), ("msgWriter.close", None))
    sig = b.add(("signal", CLOSEDCH, mw), ("Conn.close", None))
    st = b.add(("set", CLOSED, True, sig), ("Conn.close", "set closed"))
    u1 = b.add(("unlock", CM, k), ("Conn.close", None))
    t = b.add(("test", CLOSED, u1, st), ("Conn.close", "test closed"))
    return b.add(("forceLock", CM, t), ("Conn.close", "forceLock closeMu"))


# ---------------- read.go ----------------

def readFrameIO(b, fn, kOk, kErr):
    """readFrameHeader / readFramePayload: arm own, transport read, re-arm Background."""
    re = b.add(("arm", RT, False, kOk, kErr), (fn, "arm read bg"))
    io = b.add(("io", re, kErr), (fn, "io read"))
    return b.add(("arm", RT, True, io, kErr), (fn, "arm read own"))


def handleControl(b, kOk, kErr):
    # close branch: parse (bad → writeError), echo, record peerClosed
    setp = b.add(("set", PEERCLOSED, True, kErr), ("Conn.handleControl", "set peerClosed"))
    echo = writeClose(b, setp, setp)
    we = writeError(b, kErr)
    closeBr = b.add(("branch", [we, echo]), ("Conn.handleControl", None))
    pong = writeFrame(b, PONG, kOk, kErr)
    disp = b.add(("branch", [pong, kOk, closeBr]), ("Conn.handleControl", None))
    rd = readFrameIO(b, "Conn.readFramePayload", disp, kErr)
    return b.add(("branch", [we, rd]), ("Conn.handleControl", "call readFramePayload"))


def readLoop(b, kData, kErr):
    top = b.new()
    we = writeError(b, kErr)
    hc = handleControl(b, top, kErr)
    disp = b.add(("branch", [we, kErr, hc, kData]), ("Conn.readLoop", None))
    rd = readFrameIO(b, "Conn.readFrameHeader", disp, kErr)
    b.put(top, ("branch", [rd]), ("Conn.readLoop", "call readFrameHeader"))
    return top


def readUnlock(b, k):
    cl = connClose(b, k)
    u1 = b.add(("unlock", R, cl), ("Conn.readUnlock", "unlock readMu"))
    u2 = b.add(("unlock", R, k), ("Conn.readUnlock", None))
    return b.add(("test", PEERCLOSED, u1, u2), ("Conn.readUnlock", "test peerClosed"))


def reader(b, kOk, kErr):
    """Conn.reader: lock, readLoop until a data frame, (continuation → writeError), unlock."""
    ruOk = readUnlock(b, kOk)
    ruErr = readUnlock(b, kErr)
    we = writeError(b, ruErr)
    got = b.add(("branch", [we, ruOk]), ("Conn.reader", None))
    rl = readLoop(b, got, ruErr)
    pre = b.add(("branch", [ruErr, rl]), ("Conn.reader", "call readLoop"))
    return b.add(("lock", R, pre, kErr), ("Conn.reader", "lock readMu"))


def msgReaderRead(b, kOk, kErr):
    """msgReader.Read → limitReader.Read → (inflater) → msgReader.read, any number of times."""
    ruOk = readUnlock(b, kOk)
    ruErr = readUnlock(b, kErr)
    top = b.new()
    weLimit = writeError(b, ruErr)
    weSeq = writeError(b, ruErr)
    nxt = b.add(("branch", [weSeq, top]), ("msgReader.read", None))
    rl = readLoop(b, nxt, ruErr)
    after = b.add(("branch", [ruOk, top]), ("msgReader.read", None))
    pay = readFrameIO(b, "Conn.readFramePayload", after, ruErr)
    b.put(top, ("branch", [weLimit, pay, rl, ruOk]), ("msgReader.Read", "call msgReader.read"))
    return b.add(("lock", R, top, kErr), ("msgReader.Read", "lock readMu"))


# ---------------- API threads ----------------

def api_Reader(b):
    return reader(b, done(b, True, "Conn.Reader"), done(b, False, "Conn.Reader"))


def api_Read(b):
    return msgReaderRead(b, done(b, True, "msgReader.Read"), done(b, False, "msgReader.Read"))


def api_Write(b):
    """Conn.Write without compression: reset (lock mu), one final frame, unlock mu."""
    dOk, dErr = done(b, True, "Conn.write"), done(b, False, "Conn.write")
    uOk = b.add(("unlock", M, dOk), ("Conn.write", "defer-unlock msgWriter.mu"))
    uErr = b.add(("unlock", M, dErr), ("Conn.write", None))
    wf = writeFrame(b, SINGLE, uOk, uErr)
    return b.add(("lock", M, wf, dErr), ("msgWriter.reset", "lock msgWriter.mu"))


def api_Writer(b):
    """Writer(); Write* ; Close() as one activity (also Conn.Write with compression)."""
    dOk, dErr = done(b, True, "msgWriter.Close"), done(b, False, "msgWriter")
    dErrA = dErr
    dErr = done(b, False, "msgWriter")     # error exits while the message is open (phase B) are separate nodes
    # phase B: at least one frame was written (next data frame is a continuation)
    loopB = b.new()
    uB = b.add(("unlock", WM, loopB), ("msgWriter.Write", "defer-unlock msgWriter.writeMu"))
    uBerr = b.add(("unlock", WM, dErr), ("msgWriter.Write", None))
    moreB = b.new()
    wfB = writeFrame(b, CONT, moreB, uBerr)
    b.put(moreB, ("branch", [wfB, uB]), ("msgWriter.Write", None))
    chunkB = b.add(("lock", WM, b.add(("branch", [uBerr, moreB]), ("msgWriter.Write", None)), dErr), ("msgWriter.Write", "lock msgWriter.writeMu"))
    # Close in phase B
    uCwm = b.add(("unlock", WM, dOk), ("msgWriter.Close", "defer-unlock msgWriter.writeMu"))
    uCm = b.add(("unlock", M, uCwm), ("msgWriter.Close", "unlock msgWriter.mu"))
    uCerr = b.add(("unlock", WM, dErr), ("msgWriter.Close", None))
    uCerrDone = b.add(("unlock", WM, dErrA), ("msgWriter.Close", None))
    finB = writeFrame(b, CONTFIN, uCm, uCerr, kErrPost=uCerrDone)
    flushB = b.new()
    wfFlushB = writeFrame(b, CONT, flushB, uCerr)
    b.put(flushB, ("branch", [wfFlushB, finB]), ("msgWriter.Close", None))
    closeB = b.add(("lock", WM, b.add(("branch", [uCerr, flushB]), ("msgWriter.Close", None)), dErr), ("msgWriter.Close", "lock msgWriter.writeMu"))
    b.put(loopB, ("branch", [chunkB, closeB]), ("msgWriter", None))
    # phase A: no frame yet
    dErr = dErrA
    loopA = b.new()
    uA = b.add(("unlock", WM, loopA), ("msgWriter.Write", None))
    uAerr = b.add(("unlock", WM, dErr), ("msgWriter.Write", None))
    wfA = writeFrame(b, FIRST, uB, uAerr, kErrPost=uBerr)      # after the first frame we are in phase B (still inside this Write call)
    chunkA = b.add(("lock", WM, b.add(("branch", [uAerr, wfA, uA]), ("msgWriter.Write", None)), dErr), ("msgWriter.Write", None))
    uCAerr = b.add(("unlock", WM, dErr), ("msgWriter.Close", None))
    uCAwm = b.add(("unlock", WM, dOk), ("msgWriter.Close", None))
    uCAm = b.add(("unlock", M, uCAwm), ("msgWriter.Close", None))
    finA = writeFrame(b, SINGLE, uCAm, uCAerr)
    flushA = writeFrame(b, FIRST, flushB, uCAerr, kErrPost=uCerr)   # the flush emits the first frame, then we are in phase B of Close
    closeA = b.add(("lock", WM, b.add(("branch", [uCAerr, flushA, finA]), ("msgWriter.Close", None)), dErr), ("msgWriter.Close", None))
    b.put(loopA, ("branch", [chunkA, closeA]), ("msgWriter", None))
    return b.add(("lock", M, loopA, dErr), ("msgWriter.reset", "lock msgWriter.mu"))


def api_Ping(b):
    dOk, dErr = done(b, True, "Conn.ping"), done(b, False, "Conn.ping")
    wait = b.add(("branch", [dOk, dErr]), ("Conn.ping", None))
    return writeFrame(b, PING, wait, dErr)


def waitGoroutines(b, kOk, kErr):
    aC = b.add(("await", CLOSEDCH, kOk, kErr), ("Conn.waitGoroutines", "await closed"))
    aC2 = b.add(("await", CLOSEDCH, kOk, kErr), ("Conn.waitGoroutines", None))   # same Go statement, reached with closeReadDone joined
    aR = b.add(("await", CRD, aC2, kErr), ("Conn.waitGoroutines", "await closeReadDone"))
    t = b.add(("test", CR, aR, aC), ("Conn.waitGoroutines", "test closeRead"))
    return b.add(("await", TLD, t, kErr), ("Conn.waitGoroutines", "await timeoutLoopDone"))


def discardPayload(b, kOk, kErr):
    top = b.new()
    rd = readFrameIO(b, "Conn.readFramePayload", top, kErr)
    b.put(top, ("branch", [rd, kOk]), ("Conn.discardPayload", "call readFramePayload"))
    return top


def waitCloseHandshake(b, k):
    ru = readUnlock(b, k)
    top = b.new()
    d2 = discardPayload(b, top, ru)
    rl = readLoop(b, d2, ru)
    b.put(top, ("branch", [rl]), ("Conn.waitCloseHandshake", "call readLoop"))
    d1 = discardPayload(b, top, ru)
    t = b.add(("test", PEERCLOSED, ru, d1), ("Conn.waitCloseHandshake", "test peerClosed"))
    return b.add(("lock", R, t, k), ("Conn.waitCloseHandshake", "lock readMu"))


def closeHandshake(b, k):
    wch = waitCloseHandshake(b, k)
    return writeClose(b, wch, k)


def api_Close(b):
    dOk, dErr = done(b, True, "Conn.Close"), done(b, False, "Conn.Close")
    res = b.add(("branch", [dOk, dErr]), ("Conn.Close", None))
    wg = waitGoroutines(b, res, dErr)
    cl = connClose(b, wg)
    ch = closeHandshake(b, cl)
    wgLost = waitGoroutines(b, dErr, dErr)
    return b.add(("cas", CLOSING, ch, wgLost), ("Conn.Close", "cas closing"))


def api_CloseNow(b):
    dOk, dErr = done(b, True, "Conn.CloseNow"), done(b, False, "Conn.CloseNow")
    res = b.add(("branch", [dOk, dErr]), ("Conn.CloseNow", None))
    wg = waitGoroutines(b, res, dErr)
    cl = connClose(b, wg)
    wgLost = waitGoroutines(b, dErr, dErr)
    clLost = connClose(b, wgLost)
    return b.add(("cas", CLOSING, cl, clLost), ("Conn.CloseNow", "cas closing"))


def closeReadGoroutine(b):
    d = done(b, False, "Conn.CloseRead.func1")
    sig = b.add(("signal", CRD, d), ("Conn.CloseRead.func1", "defer-signal closeReadDone"))
    cl = connClose(b, sig)
    ch = closeHandshake(b, cl)
    cas = b.add(("cas", CLOSING, ch, cl), ("Conn.CloseRead.func1", "cas closing"))
    return reader(b, cas, cl)


def api_CloseRead(b):
    d = done(b, True, "Conn.CloseRead")
    g = closeReadGoroutine(b)
    sp = b.add(("spawn", g, d), ("Conn.CloseRead", "spawn CloseRead.func1"))
    return b.add(("cas", CR, sp, d), ("Conn.CloseRead", "cas closeRead"))


def timeoutLoop(b):
    d = done(b, False, "Conn.timeoutLoop")
    sig = b.add(("signal", TLD, d), ("Conn.timeoutLoop", "defer-signal timeoutLoopDone"))
    top = b.new()
    fire = connClose(b, sig)
    sel = b.add(("branch", [top, fire]), ("Conn.timeoutLoop", None))
    b.put(top, ("test", CLOSED, sig, sel), ("Conn.timeoutLoop", "test closed"))
    return top


def build():
    b = B()
    b.boot = [timeoutLoop(b)]
    b.entries = {
        "Reader": api_Reader(b), "Read": api_Read(b), "Write": api_Write(b), "Writer": api_Writer(b), "Ping": api_Ping(b),
        "Close": api_Close(b), "CloseNow": api_CloseNow(b), "CloseRead": api_CloseRead(b),
    }
    assert all(c is not None for c in b.code)
    return b


# ---------------- dataflow: certificates ----------------

def succs(i):
    t = i[0]
    if t == "lock": return [i[2], i[3]]
    if t in ("forceLock", "unlock"): return [i[2]]
    if t == "tryLock": return [i[2], i[3]]
    if t == "test": return [i[2], i[3]]
    if t == "set": return [i[3]]
    if t == "cas": return [i[2], i[3]]
    if t == "wr": return [i[2], i[3]]
    if t == "arm": return [i[3], i[4]]
    if t == "io": return [i[1], i[2]]
    if t == "spawn": return [i[2]]
    if t == "signal": return [i[2]]
    if t == "await": return [i[2], i[3]]
    if t == "branch": return list(i[1])
    if t == "done": return []
    raise ValueError(t)


def solve(b, init, transfer, meet, top, roots):
    """forward dataflow: fact[n] = meet over incoming edges of transfer(pred, edge index)."""
    n = len(b.code)
    fact = [top] * n
    seen = [False] * n
    work = []
    for r in roots:
        fact[r] = init
        seen[r] = True
        work.append(r)
    while work:
        u = work.pop()
        i = b.code[u]
        outs = transfer(u, i, fact[u])
        for (v, f) in outs:
            try:
                nf = f if not seen[v] else meet(fact[v], f)
            except AssertionError as e:
                raise AssertionError(f"{e}: node {v} {b.code[v]} {b.src[v]} reached from {u} {b.code[u]} {b.src[u]}")
            if not seen[v] or nf != fact[v]:
                fact[v] = nf
                seen[v] = True
                work.append(v)
    return fact, seen


def roots_of(b):
    r = list(b.boot) + list(b.entries.values())
    for i in b.code:
        if i[0] == "spawn":
            r.append(i[1])
    return r


def lockset(b):
    def tr(u, i, H):
        t = i[0]
        if t == "lock": return [(i[2], H | {i[1]}), (i[3], H)]
        if t == "forceLock": return [(i[2], H | {i[1]})]
        if t == "tryLock": return [(i[2], H | {i[1]}), (i[3], H)]
        if t == "unlock":
            assert i[1] in H, f"unlock of a lock not held at node {u} {b.src[u]} {i} {H}"
            return [(i[2], H - {i[1]})]
        if t == "spawn": return [(i[2], H)]
        return [(s, H) for s in succs(i)]
    fact, seen = solve(b, frozenset(), tr, lambda a, c: a & c, frozenset(), roots_of(b))
    return [sorted(f) for f in fact]


def bracket(b, held, L, cls):
    def tr(u, i, o):
        t = i[0]
        o = bool(o)
        if t == "wr":
            c = cls(i[1])
            if c == "opens":
                assert not o and L in held[u], (u, i)
                no = True
            elif c == "mid":
                assert o, (u, i, b.src[u])
                no = True
            elif c == "closes":
                assert o, (u, i)
                no = False
            elif c == "single":
                assert not o and L in held[u]
                no = False
            else:
                no = o
            return [(i[2], no), (i[3], None)]   # the error successor is unconstrained by the checker
        if t == "spawn": return [(i[2], o)]
        return [(s, o) for s in succs(i)]
    def meet(a, c):
        if a is None: return c
        if c is None: return a
        assert a == c, "bracket state differs between two ways of reaching a node: split the node"
        return a
    fact, seen = solve(b, False, tr, meet, False, roots_of(b))
    return [bool(f) for f in fact]


def closesent(b, held):
    U, F, S = "unknown", "isFalse", "setByMe"
    def meet(a, c): return a if a == c else U
    def tr(u, i, k):
        t = i[0]
        if W not in held[u]:
            k = U
        if t == "test" and i[1] == CS:
            return [(i[2], k if k != F else U), (i[3], F if W in held[u] else U)]
        if t == "set" and i[1] == CS:
            assert i[2] is True and k == F and W in held[u], (u, i, k)
            return [(i[3], S)]
        if t == "wr":
            p = i[1]
            if p % 10 == BEGIN and p // 10 in (FIRST, SINGLE, CONT, CONTFIN):
                assert k == F, (u, i, k, b.src[u])
                return [(i[2], k), (i[3], k)]
            if p == kind(CLOSE, BEGIN):
                assert k == S, (u, i, k)
                return [(i[2], U), (i[3], k)]
            return [(i[2], k), (i[3], k)]
        if t == "unlock" and i[1] == W:
            return [(i[2], U)]
        if t == "spawn": return [(i[2], k)]
        return [(s, k) for s in succs(i)]
    fact, seen = solve(b, U, tr, meet, U, roots_of(b))
    # knowledge is only kept under W
    return [f if W in held[n] else U for n, f in enumerate(fact)]


def arming(b, held):
    lockOf = {RT: R, WT: W}
    def tr(u, i, f):
        may, must = f
        must = frozenset(s for s in must if lockOf[s] in held[u])
        t = i[0]
        if t == "arm":
            s, own = i[1], i[2]
            assert lockOf[s] in held[u], (u, i, b.src[u])
            if own:
                return [(i[3], (may | {s}, must | {s})), (i[4], (may, must))]
            return [(i[3], (may - {s}, must - {s})), (i[4], (may, must))]
        if t == "io":
            assert RT in must, (u, i, b.src[u], must)
        if t == "wr":
            assert WT in must, (u, i, b.src[u], must)
        if t == "unlock":
            return [(i[2], (may, frozenset(s for s in must if lockOf[s] != i[1])))]
        if t == "spawn": return [(i[2], (may, must))]
        if t == "done" and i[1] and b.src[u][0] not in EXEMPT_FNS:
            assert not may, (u, b.src[u], may)
        return [(s, (may, must)) for s in succs(i)]
    def meet(a, c): return (a[0] | c[0], a[1] & c[1])
    fact, seen = solve(b, (frozenset(), frozenset()), tr, meet, (frozenset(), frozenset()), roots_of(b))
    may = [sorted(f[0]) for f in fact]
    must = [sorted(s for s in f[1] if lockOf[s] in held[n]) for n, f in enumerate(fact)]
    return may, must


EXEMPT_FNS = ("Conn.Close", "Conn.CloseNow")


def joined(b):
    def tr(u, i, j):
        if i[0] == "await": return [(i[2], j | {i[1]}), (i[3], j)]
        if i[0] == "spawn": return [(i[2], j)]
        return [(s, j) for s in succs(i)]
    fact, seen = solve(b, frozenset(), tr, lambda a, c: a & c, frozenset(), roots_of(b))
    return [sorted(f) for f in fact]


def passed(b, F):
    def tr(u, i, p):
        t = i[0]
        if t == "lock": return [(i[2], p or F == CLOSED), (i[3], p)]
        if t == "test": return [(i[2], p), (i[3], p or i[1] == F)]
        if t == "cas": return [(i[2], p or i[1] == F), (i[3], p)]
        if t == "spawn": return [(i[2], p)]
        return [(s, p) for s in succs(i)]
    fact, seen = solve(b, False, tr, lambda a, c: a and c, False, roots_of(b))
    return fact


# ---------------- output ----------------

def lean_instr(i):
    t = i[0]
    bl = lambda x: "true" if x else "false"
    if t == "lock": return f".lock {i[1]} {i[2]} {i[3]}"
    if t == "forceLock": return f".forceLock {i[1]} {i[2]}"
    if t == "tryLock": return f".tryLock {i[1]} {i[2]} {i[3]}"
    if t == "unlock": return f".unlock {i[1]} {i[2]}"
    if t == "test": return f".test {i[1]} {i[2]} {i[3]}"
    if t == "set": return f".set {i[1]} {bl(i[2])} {i[3]}"
    if t == "cas": return f".cas {i[1]} {i[2]} {i[3]}"
    if t == "wr": return f".wr {i[1]} {i[2]} {i[3]}"
    if t == "arm": return f".arm {i[1]} {bl(i[2])} {i[3]} {i[4]}"
    if t == "io": return f".io {i[1]} {i[2]}"
    if t == "spawn": return f".spawn {i[1]} {i[2]}"
    if t == "signal": return f".signal {i[1]} {i[2]}"
    if t == "await": return f".await {i[1]} {i[2]} {i[3]}"
    if t == "branch": return f".branch [{', '.join(map(str, i[1]))}]"
    if t == "done": return f".done {bl(i[1])}"
    raise ValueError(t)


def frame_cls(k):
    return {BEGIN: "opens", CHUNK: "mid", END: "closes"}[k % 10]


def msg_cls(k):
    if k % 10 != BEGIN:
        return "other"
    return {FIRST: "opens", SINGLE: "single", CONT: "mid", CONTFIN: "closes"}.get(k // 10, "other")


def lst(xs):
    return "[" + ", ".join(str(x) for x in xs) + "]"


def main(out):
    b = build()
    held = lockset(b)
    heldset = [set(h) for h in held]
    fopen = bracket(b, heldset, W, frame_cls)
    mopen = bracket(b, heldset, M, msg_cls)
    know = closesent(b, heldset)
    may, must = arming(b, heldset)
    jn = joined(b)
    pClosed = passed(b, CLOSED)
    pClosing = passed(b, CLOSING)
    n = len(b.code)
    bl = lambda x: "true" if x else "false"
    L = []
    L.append("import WS.CIR.Core\nimport WS.CIR.CloseSent\n-- GENERATED by /verif/cir/conn_cir.py (hand-written skeleton of conn.go/read.go/write.go/close.go); do not edit.")
    L.append("namespace WS.Gen.ConnCIR\nopen WS.CIR\n")
    L.append(f"-- {n} nodes")
    L.append("def prog : Prog :=\n  { code := [\n    " + ",\n    ".join(lean_instr(i) for i in b.code) + "],\n" +
             f"    entries := {lst(sorted(b.entries.values()))},\n    boot := {lst(b.boot)} }}\n")
    for name, e in sorted(b.entries.items()):
        L.append(f"def entry{name} : Node := {e}")
    L.append("")
    L.append("def lockCert : List (List Nat) := [" + ", ".join(lst(h) for h in held) + "]\n")
    L.append("def frameOpen : List Bool := [" + ", ".join(bl(x) for x in fopen) + "]\n")
    L.append("def msgOpen : List Bool := [" + ", ".join(bl(x) for x in mopen) + "]\n")
    km = {"unknown": ".unknown", "isFalse": ".isFalse", "setByMe": ".setByMe"}
    L.append("def closeKnow : List WS.CIR.CloseSent.Know := [" + ", ".join(km[x] for x in know) + "]\n")
    L.append("def armMay : List (List Nat) := [" + ", ".join(lst(x) for x in may) + "]\n")
    L.append("def armMust : List (List Nat) := [" + ", ".join(lst(x) for x in must) + "]\n")
    ex = [x for x, i in enumerate(b.code) if i[0] == "done" and i[1] and b.src[x][0] in EXEMPT_FNS]
    L.append(f"def armExempt : List Nat := {lst(ex)}\n")
    L.append("def joined : List (List Nat) := [" + ", ".join(lst(x) for x in jn) + "]\n")
    scopeClosed = ("Conn.Reader", "msgReader.Read", "Conn.write", "msgWriter.Close", "Conn.ping")
    scopeClosing = ("Conn.Close", "Conn.CloseNow")
    dt = [n for n, i in enumerate(b.code) if i[0] == "done" and i[1]]
    for dn in dt:
        fn = b.src[dn][0]
        assert fn in scopeClosed + scopeClosing + ("Conn.CloseRead",), fn
        if fn in scopeClosed:
            assert pClosed[dn], ("a call may succeed on a closed connection", dn, fn)
        if fn in scopeClosing:
            assert pClosing[dn], ("a second Close/CloseNow may succeed", dn, fn)
    L.append(f"def passExemptClosed : List Nat := {lst([x for x in dt if b.src[x][0] not in scopeClosed])}\n")
    L.append(f"def passExemptClosing : List Nat := {lst([x for x in dt if b.src[x][0] not in scopeClosing])}\n")
    L.append(f"def closeDone : List Nat := {lst([x for x in dt if b.src[x][0] in scopeClosing])}\n")
    L.append(f"def apiDone : List Nat := {lst([x for x in dt if b.src[x][0] in scopeClosed])}\n")
    crg = [i[1] for i in b.code if i[0] == "spawn"]
    assert len(crg) == 1
    L.append(f"def closeReadGoroutine : Nat := {crg[0]}\n")
    L.append("def passedClosed : List Bool := [" + ", ".join(bl(x) for x in pClosed) + "]\n")
    L.append("def passedClosing : List Bool := [" + ", ".join(bl(x) for x in pClosing) + "]\n")
    # per-function primitive sets (for the tie with the Go source): what each Go function is taken to do
    L.append("/-- the synchronisation primitives each Go function is taken to contain by this skeleton (sorted). -/")
    L.append("def skeleton : List (String × List String) := [")
    L.append(",\n".join(f'  ("{fn}", [{", ".join(chr(34) + t + chr(34) for t in sorted(set(tags)))}])' for fn, tags in sorted(SKELETON.items())))
    L.append("]\n")
    # the ordered, structured skeleton this program was written against (cir/skeleton_ordered.json; see bin/skeleton-snapshot)
    import json as _json, os as _os
    ordered = _json.load(open(_os.path.join(_os.path.dirname(_os.path.abspath(__file__)), "skeleton_ordered.json")))
    assert set(ordered) == set(SKELETON), (sorted(set(ordered) ^ set(SKELETON)))
    for fn, toks in ordered.items():
        prim = {t for t in toks if t not in ("if{", "}else{", "}", "for{", "loop{", "select{", "switch{", "case:", "default:", "defer{", "inline{", "return", "break", "continue") and not t.startswith(("cond:", "loopcond:", "kill:", "set:", "copy:"))}
        assert prim == set(SKELETON[fn]), (fn, sorted(prim ^ set(SKELETON[fn])))
    L.append("/-- the same primitives in source order inside their control structure, as they stood when this skeleton was")
    L.append("written / last re-validated against the Go source. -/")
    L.append("def orderedDeclared : List (String × List String) := [")
    L.append(",\n".join(f'  ("{fn}", [{", ".join(chr(34) + t + chr(34) for t in (toks or []))}])' for fn, toks in sorted(ordered.items())))
    L.append("]\n")
    L.append("end WS.Gen.ConnCIR")
    text = "\n".join(L) + "\n"
    try:
        old = open(out).read()
    except OSError:
        old = None
    if old != text:
        open(out, "w").write(text)
    print(f"conn_cir: {n} nodes, entries {b.entries}, boot {b.boot}", file=sys.stderr)


if __name__ == "__main__":
    main(sys.argv[1] if len(sys.argv) > 1 else "/verif/lean/WS/Gen/ConnCIR.lean")
