package main

import (
	"fmt"
	"go/ast"
	"go/token"
	"sort"
	"strconv"
	"strings"
)

// Second generation of decision skeletons (WS/Gen/Guards2.lean): the same DSL and the same translator as guards.go,
// applied to functions of accept.go, dial.go, close.go, frame.go, read.go, write.go, conn.go, netconn.go and wsjson, with
//   - calls of other packages kept as named actions when the function's configuration lists the callee (their literal and
//     constant arguments are part of the name: `w.Header().Set(Connection,Upgrade)`, `http.Error(_,_,403)`),
//   - results classified by their status code (`return http.StatusUpgradeRequired, err` -> "426"), by a boolean literal or by
//     the error sentinel returned (`return 0, io.EOF` -> "err:io.EOF"),
//   - locals that are assigned once replaced by their defining expression (renaming a local changes nothing),
//   - error variables tracked through re-assignment: every comparison `err == X` reads the value the variable has at that
//     point (`.assign "err!=io.EOF" …` at each assignment: nil, a constructor, a sentinel, the result of a named call),
//   - `switch` over strings or over a call result, `for … range` unrolled once.

type g2cfg struct {
	fn     string   // key of the function in its package
	dir    string   // "" = the root package, otherwise the sub-directory
	acts   []string // callees of other packages recorded as actions (exact normalised callee)
	full   []string // callees whose arguments are rendered in full
	status bool     // first result is an HTTP status
	track  []string // assignment targets recorded as actions "<target>=<rhs>"
	local  []string // package-local callees kept as named actions (everything else local is rendered in place)
	lfull  []string // package-local callees kept as actions with their arguments rendered
	pure   []string // package-local callees that are neither rendered in place nor recorded (pure functions of their arguments)
}

var guards2Funcs = []g2cfg{
	{fn: "verifyClientRequest", status: true, acts: []string{"w.Header().Set"}},
	{fn: "accept", acts: []string{"http.Error", "w.Header().Set", "w.WriteHeader", "hj.Hijack", "log.Printf"},
		local: []string{"verifyClientRequest", "authenticateOrigin", "selectSubprotocol", "selectDeflate", "newConn", "secWebSocketAccept", "cloneWithDefaults", "websocketExtensions"}},
	{fn: "authenticateOrigin", acts: []string{"url.Parse"}, local: []string{"match"}},
	{fn: "acceptDeflate", track: []string{"copts.clientNoContextTakeover", "copts.serverNoContextTakeover", "seen[name]"}},
	{fn: "selectDeflate", local: []string{"acceptDeflate"}},
	{fn: "verifyServerResponse", local: []string{"verifySubprotocol", "verifyServerExtensions", "headerContainsTokenIgnoreCase", "secWebSocketAccept"}},
	{fn: "verifySubprotocol"},
	{fn: "verifyServerExtensions", track: []string{"copts.clientNoContextTakeover", "copts.serverNoContextTakeover", "serverNoContextTakeover"}, local: []string{"websocketExtensions"}},
	{fn: "Conn.handleControl", local: []string{"writeError", "readFramePayload", "mask", "writeControl", "parseClosePayload", "writeClose", "activePingsMu.Lock", "activePingsMu.Unlock"}, track: []string{"peerClosed", "peerCloseErr"}},
	{fn: "parseClosePayload", local: []string{"validWireCloseCode"}},
	{fn: "CloseError.bytesErr", local: []string{"validWireCloseCode"}, acts: []string{"binary.BigEndian.PutUint16", "copy"}, full: []string{"binary.BigEndian.PutUint16", "copy"}},
	{fn: "CloseError.bytes", local: []string{"bytesErr"}, track: []string{"ce"}},
	{fn: "readFrameHeader", acts: []string{"r.ReadByte", "io.ReadFull"}, full: []string{"io.ReadFull"}, track: []string{"h.payloadLength"}},
	{fn: "writeFrameHeader", acts: []string{"w.WriteByte", "w.Write", "binary.BigEndian.PutUint64", "binary.BigEndian.PutUint16", "binary.LittleEndian.PutUint32"},
		full: []string{"w.Write", "binary.BigEndian.PutUint64", "binary.BigEndian.PutUint16", "binary.LittleEndian.PutUint32"}, track: []string{"lengthByte"}},
	{fn: "limitReader.Read", track: []string{"n", "p"}, local: []string{"writeError"}},
	{fn: "msgReader.setFrame", track: []string{"fin", "payloadLength", "maskKey", "limitReader.n", "flate", "ctx"}},
	{fn: "headerTokens", acts: []string{"append"}},
	{fn: "msgWriter.Close", local: []string{"writeMu.lock", "writeMu.unlock", "flateWriter.Flush", "writeFrame", "putFlateWriter", "mu.unlock", "flateContextTakeover"}, lfull: []string{"writeFrame"}, track: []string{"closed"}},
	{fn: "Conn.Close", local: []string{"casClosing", "waitGoroutines", "closeHandshake", "close"}},
	{fn: "Conn.CloseNow", local: []string{"casClosing", "waitGoroutines", "close"}},
	{fn: "Conn.closeHandshake", local: []string{"writeClose", "waitCloseHandshake"}, pure: []string{"CloseStatus"}},
	{fn: "Conn.writeClose", local: []string{"writeControl"}, lfull: []string{"writeControl"}, acts: []string{"CloseError{Code:code,Reason:reason,}.bytes"}},
	{fn: "msgReader.Read", track: []string{"fin", "payloadLength", "flate"}, acts: []string{"io.Copy"}, local: []string{"readMu.lock", "readUnlock", "limitReader.Read", "flateContextTakeover", "dict.write", "putFlateReader"}},
	{fn: "msgReader.reset", local: []string{"resetFlate", "limitReader.reset", "setFrame", "flateContextTakeover", "dict.init", "flate"}, track: []string{"ctx", "flate", "flateTail"}},
	{fn: "msgWriter.reset", local: []string{"mu.lock"}, track: []string{"ctx", "opcode", "flate", "closed"}},
	{fn: "Conn.write", acts: []string{"writer(ctx,typ)#0.Write", "writer(ctx,typ)#0.Close"}, local: []string{"msgWriter.reset", "msgWriter.mu.unlock", "msgWriter.Write", "msgWriter.Close", "writeFrame", "flate", "writer", "reset", "mu.unlock", "Write", "Close"}},
	{fn: "Conn.ping", acts: []string{"delete"}, local: []string{"writeControl", "activePingsMu.Lock", "activePingsMu.Unlock"}, track: []string{"activePings[p]"}},
	{fn: "netConn.read", pure: []string{"CloseStatus"}, acts: []string{"atomic.LoadInt64"}, local: []string{"Reader", "Close", "reader.Read", "c.Reader", "c.Close"}, track: []string{"readEOFed", "reader"}},
	{fn: "netConn.Read", local: []string{"readMu.forceLock", "readMu.unlock", "read"}},
	{fn: "netConn.Write", acts: []string{"atomic.LoadInt64"}, local: []string{"writeMu.forceLock", "writeMu.unlock", "Write", "c.Write"}},
	{fn: "read", dir: "wsjson", acts: []string{"c.Reader", "bpool.Get", "bpool.Put", "bpool.Get().ReadFrom", "json.Unmarshal", "c.Close"}},
}

var httpStatus = map[string]int64{"StatusSwitchingProtocols": 101, "StatusBadRequest": 400, "StatusForbidden": 403, "StatusMethodNotAllowed": 405,
	"StatusUpgradeRequired": 426, "StatusInternalServerError": 500, "StatusNotImplemented": 501, "StatusOK": 200, "StatusNotFound": 404}

func (t *guardTr) evalConst(e ast.Expr) (int64, bool) {
	if v, ok := t.ct.eval(e, 0); ok {
		return v, true
	}
	if s, ok := e.(*ast.SelectorExpr); ok {
		if id, ok := s.X.(*ast.Ident); ok && id.Name == "http" {
			v, ok := httpStatus[s.Sel.Name]
			return v, ok
		}
	}
	return 0, false
}

var errSentinels = map[string]bool{"io.EOF": true, "io.ErrUnexpectedEOF": true, "net.ErrClosed": true, "context.DeadlineExceeded": true, "filepath.ErrBadPattern": true}

// prepass: assignment counts of local identifiers and the things each error variable is compared with.
func (t *guardTr) prepass(fd *ast.FuncDecl) {
	t.nasg = map[string]int{}
	t.errCmp = map[string][]string{}
	t.defs = map[string]string{}
	t.ver = map[string]int{}
	t.bools = map[string]bool{}
	bare := func(e ast.Expr) {
		for {
			switch x := e.(type) {
			case *ast.ParenExpr:
				e = x.X
				continue
			case *ast.UnaryExpr:
				if x.Op == token.NOT {
					e = x.X
					continue
				}
			case *ast.Ident:
				t.bools[x.Name] = true
			}
			return
		}
	}
	add := func(v, what string) {
		for _, x := range t.errCmp[v] {
			if x == what {
				return
			}
		}
		t.errCmp[v] = append(t.errCmp[v], what)
	}
	if fd.Type.Params != nil {
		for _, f := range fd.Type.Params.List {
			for _, n := range f.Names {
				t.nasg[n.Name] += 2
			}
		}
	}
	if fd.Type.Results != nil {
		for _, f := range fd.Type.Results.List {
			for _, n := range f.Names {
				t.nasg[n.Name] += 2
			}
		}
	}
	ast.Inspect(fd.Body, func(n ast.Node) bool {
		switch x := n.(type) {
		case *ast.FuncLit:
			return false
		case *ast.IfStmt:
			bare(x.Cond)
		case *ast.AssignStmt:
			for _, l := range x.Lhs {
				if id, ok := l.(*ast.Ident); ok {
					if x.Tok == token.DEFINE || x.Tok == token.ASSIGN {
						t.nasg[id.Name]++
					} else {
						t.nasg[id.Name] += 2
					}
				}
			}
		case *ast.RangeStmt:
			for _, e := range []ast.Expr{x.Key, x.Value} {
				if id, ok := e.(*ast.Ident); ok {
					t.nasg[id.Name] += 2
				}
			}
		case *ast.IncDecStmt:
			if id, ok := x.X.(*ast.Ident); ok {
				t.nasg[id.Name] += 2
			}
		case *ast.UnaryExpr:
			if x.Op == token.AND { // &v: may be written through the pointer
				if id, ok := x.X.(*ast.Ident); ok {
					t.nasg[id.Name] += 2
				}
			}
		case *ast.BinaryExpr:
			if x.Op == token.LAND || x.Op == token.LOR {
				bare(x.X)
				bare(x.Y)
			}
			if x.Op == token.EQL || x.Op == token.NEQ {
				for _, pr := range [][2]ast.Expr{{x.X, x.Y}, {x.Y, x.X}} {
					id, ok := pr[0].(*ast.Ident)
					if !ok {
						continue
					}
					if o, ok := pr[1].(*ast.Ident); ok && o.Name == "nil" {
						add(id.Name, "nil")
					} else if s := strings.ReplaceAll(t.p.str(pr[1]), " ", ""); errSentinels[s] {
						add(id.Name, "nil")
						add(id.Name, s)
					}
				}
			}
		}
		return true
	})
	for v := range t.errCmp {
		sort.Strings(t.errCmp[v])
	}
}

// callSite names a call whose results are tested: the callee, with `@k` for its k-th such call site in the function.
func (t *guardTr) callSite(c *ast.CallExpr) string {
	n := t.calleeName(c.Fun)
	if t.ncall == nil {
		t.ncall = map[string]int{}
	}
	t.ncall[n]++
	if t.ncall[n] > 1 {
		return fmt.Sprintf("%s@%d", n, t.ncall[n])
	}
	return n
}

func (t *guardTr) calleeName(f ast.Expr) string {
	if a, ok := t.atom(f); ok {
		return a
	}
	return strings.ReplaceAll(normSrc(t.p.str(f)), " ", "")
}

func inList(l []string, s string) bool {
	for _, x := range l {
		if x == s {
			return true
		}
	}
	return false
}

// extAct: a call of another package (or a builtin) that the function's configuration lists, as a named action.
func (t *guardTr) extAct(c *ast.CallExpr, prefix string) (string, bool) {
	if t.cfg == nil {
		return "", false
	}
	callee := t.calleeName(c.Fun)
	if !inList(t.cfg.acts, callee) {
		return "", false
	}
	full := inList(t.cfg.full, callee)
	var args []string
	for _, a := range c.Args {
		if bl, ok := a.(*ast.BasicLit); ok && bl.Kind == token.STRING {
			if s, err := strconv.Unquote(bl.Value); err == nil {
				args = append(args, s)
				continue
			}
		}
		if v, ok := t.evalConst(a); ok {
			args = append(args, fmt.Sprint(v))
			continue
		}
		if full {
			args = append(args, t.normExpr(a))
		} else {
			args = append(args, "_")
		}
	}
	return ".act " + leanStr(prefix+callee+"("+strings.Join(args, ",")+")"), true
}

// errAssign: the assignments that keep the atoms `<v>!=X` in step with an assignment `<v> = rhs`.
func (t *guardTr) errAssign(v string, rhs ast.Expr, src string) []string {
	var out []string
	r := strings.ReplaceAll(t.p.str(rhs), " ", "")
	for _, x := range t.errCmp[v] {
		name := leanStr(v + "!=" + x)
		switch {
		case r == "nil":
			out = append(out, fmt.Sprintf(".assign %s (%s)", name, map[bool]string{true: ".ff", false: ".tt"}[x == "nil"]))
		case isErrCtor(rhs):
			out = append(out, fmt.Sprintf(".assign %s (.tt)", name))
		case errSentinels[r]:
			out = append(out, fmt.Sprintf(".assign %s (%s)", name, map[bool]string{true: ".ff", false: ".tt"}[x == r]))
		default:
			if id, ok := rhs.(*ast.Ident); ok {
				out = append(out, fmt.Sprintf(".assign %s (.v %s)", name, leanStr(id.Name+"!="+x)))
			} else if u, ok := rhs.(*ast.UnaryExpr); ok && u.Op == token.AND {
				out = append(out, fmt.Sprintf(".assign %s (.tt)", name))
			} else if _, ok := rhs.(*ast.CallExpr); !ok {
				out = append(out, fmt.Sprintf(".assign %s (.v %s)", name, leanStr(t.normExpr(rhs)+"!="+x)))
			} else {
				out = append(out, fmt.Sprintf(".assign %s (.v %s)", name, leanStr(src+":err!="+x)))
			}
		}
	}
	return out
}

func (t *guardTr) assignV2(s *ast.AssignStmt) []string {
	var out []string
	scoped := false
	for _, r := range s.Rhs {
		acts := t.callActs(r)
		if len(acts) == 1 && strings.HasPrefix(acts[0], ".scope \"\" ") && len(s.Rhs) == 1 {
			if id, ok := s.Lhs[len(s.Lhs)-1].(*ast.Ident); ok && id.Name != "_" {
				acts[0] = ".scope " + leanStr(id.Name) + acts[0][len(".scope \"\""):]
				scoped = true
			}
		}
		out = append(out, acts...)
	}
	rhsOf := func(i int) (ast.Expr, string) {
		if len(s.Lhs) == len(s.Rhs) {
			return s.Rhs[i], ""
		}
		return s.Rhs[0], fmt.Sprintf("#%d", i)
	}
	for i, l := range s.Lhs {
		rhs, idx := rhsOf(i)
		switch l := l.(type) {
		case *ast.SelectorExpr, *ast.IndexExpr:
			a := ""
			if sel, ok := l.(*ast.SelectorExpr); ok {
				a, _ = t.atom(sel)
			} else {
				a = t.normExpr(l)
			}
			base := strings.TrimRight(a, "'")
			if raw := strings.ReplaceAll(t.p.str(l), " ", ""); inList(t.cfg.track, raw) {
				a, base = raw, raw
			}
			if guardFlags[a] && !inList(t.cfg.track, base) {
				out = append(out, ".act "+leanStr("set "+a))
			}
			if guardBoolVars[a] && len(s.Lhs) == len(s.Rhs) && s.Tok == token.ASSIGN {
				out = append(out, fmt.Sprintf(".assign %s (%s)", leanStr(a), t.cond(rhs)))
			}
			if inList(t.cfg.track, base) {
				out = append(out, ".act "+leanStr(a+s.Tok.String()+t.normExpr(rhs)+idx))
				if t.blk <= 1 {
					t.ver[base]++
				}
			}
		case *ast.Ident:
			if l.Name == "_" {
				continue
			}
			if inList(t.cfg.track, l.Name) {
				out = append(out, ".act "+leanStr(l.Name+s.Tok.String()+t.normExpr(rhs)+idx))
			}
			if _, isErr := t.errCmp[l.Name]; isErr && (s.Tok == token.ASSIGN || s.Tok == token.DEFINE) {
				if scoped && i == len(s.Lhs)-1 {
					continue // the helper rendered in place decides <v>!=nil itself
				}
				src := ""
				if c, ok := rhs.(*ast.CallExpr); ok && !isErrCtor(rhs) {
					src = t.callSite(c)
				}
				out = append(out, t.errAssign(l.Name, rhs, src)...)
				continue
			}
			if idx == "" && isBoolExpr(rhs) {
				out = append(out, fmt.Sprintf(".assign %s (%s)", leanStr(l.Name), t.cond(rhs)))
				continue
			}
			if idx == "" && isErrCtor(rhs) {
				out = append(out, fmt.Sprintf(".assign %s (.tt)", leanStr(l.Name+"!=nil")))
				continue
			}
			if t.bools[l.Name] {
				// a boolean taken from a call / type assertion / map lookup: an atom named by where it comes from
				src := t.normExpr(rhs)
				if c, ok := rhs.(*ast.CallExpr); ok {
					src = t.calleeName(c.Fun)
				}
				out = append(out, fmt.Sprintf(".assign %s (.v %s)", leanStr(l.Name), leanStr(src+idx)))
				continue
			}
			if t.nasg[l.Name] == 1 && (s.Tok == token.DEFINE || s.Tok == token.ASSIGN) {
				t.defs[l.Name] = t.normExpr(rhs) + idx
			}
		}
	}
	if out == nil {
		return []string{".skip"}
	}
	return out
}

// returnV2: results classified by status, boolean literal or error sentinel.
func (t *guardTr) returnV2(s *ast.ReturnStmt) ([]string, bool) {
	last := s.Results[len(s.Results)-1]
	if t.cfg != nil && t.cfg.status && len(s.Results) == 2 {
		if v, ok := t.evalConst(s.Results[0]); ok {
			return []string{".ret " + leanStr(fmt.Sprint(v))}, true
		}
	}
	if len(s.Results) >= 2 {
		if b, ok := boolLit(last); ok {
			var pre []string
			for _, r := range s.Results {
				pre = append(pre, t.callActs(r)...)
			}
			return append(pre, ".ret "+leanStr(b)), true
		}
	}
	r := strings.ReplaceAll(t.p.str(last), " ", "")
	if errSentinels[r] {
		return []string{".ret " + leanStr("err:"+r)}, true
	}
	if id, ok := last.(*ast.Ident); ok && id.Name != "nil" {
		if cmp, ok := t.errCmp[id.Name]; ok {
			res := "[.ret \"err\"]"
			for i := len(cmp) - 1; i >= 0; i-- {
				if cmp[i] == "nil" {
					continue
				}
				res = fmt.Sprintf("[.ifElse (.not (.v %s)) [.ret %s] %s]", leanStr(id.Name+"!="+cmp[i]), leanStr("err:"+cmp[i]), res)
			}
			var pre []string
			for _, r := range s.Results[:len(s.Results)-1] {
				pre = append(pre, t.callActs(r)...)
			}
			return append(pre, fmt.Sprintf(".ifElse (.v %s) %s [.ret \"ok\"]", leanStr(id.Name+"!=nil"), res)), true
		}
	}
	return nil, false
}

// stringSwitch: `switch <expr> { case "a", "b": … }` as an if / else-if chain over the atoms `<expr>!="a"`; a tagged switch
// over a call result with integer constants as a `.switchOn` over the atom named by the call.
func (t *guardTr) stringSwitch(s *ast.SwitchStmt) ([]string, bool) {
	allStr, allInt := true, true
	for _, cc := range s.Body.List {
		for _, e := range cc.(*ast.CaseClause).List {
			if bl, ok := e.(*ast.BasicLit); !ok || bl.Kind != token.STRING {
				allStr = false
			}
			if _, ok := t.evalConst(e); !ok {
				allInt = false
			}
		}
	}
	tag := t.normExpr(s.Tag)
	if allInt && !allStr {
		if _, ok := t.atom(s.Tag); ok {
			return nil, false // the first-generation path handles plain atoms
		}
		var cases []string
		def := "[]"
		for _, cc := range s.Body.List {
			c := cc.(*ast.CaseClause)
			if c.List == nil {
				def = t.block(c.Body)
				continue
			}
			var vals []string
			for _, e := range c.List {
				v, _ := t.evalConst(e)
				vals = append(vals, leanInt(v))
			}
			cases = append(cases, fmt.Sprintf("([%s], %s)", strings.Join(vals, ", "), t.block(c.Body)))
		}
		return []string{fmt.Sprintf(".switchOn %s [%s] %s", leanStr(tag), strings.Join(cases, ", "), def)}, true
	}
	if !allStr {
		return nil, false
	}
	res := "[]"
	var cases []*ast.CaseClause
	for _, cc := range s.Body.List {
		c := cc.(*ast.CaseClause)
		if c.List == nil {
			res = t.block(c.Body)
		} else {
			cases = append(cases, c)
		}
	}
	for i := len(cases) - 1; i >= 0; i-- {
		cond := ""
		for j := len(cases[i].List) - 1; j >= 0; j-- {
			lit := strings.ReplaceAll(normSrc(t.p.str(cases[i].List[j])), " ", "")
			x := fmt.Sprintf(".not (.v %s)", leanStr(tag+"!="+lit))
			if cond == "" {
				cond = x
			} else {
				cond = fmt.Sprintf(".or (%s) (%s)", x, cond)
			}
		}
		res = fmt.Sprintf("[.ifElse (%s) %s %s]", cond, t.block(cases[i].Body), res)
	}
	return []string{strings.TrimSuffix(strings.TrimPrefix(res, "["), "]")}, true
}

func newGuardTr2(p *pkgSrc, ct *constTable, fd *ast.FuncDecl, cfg *g2cfg, depth int) *guardTr {
	t := &guardTr{p: p, ct: ct, recv: map[string]bool{}, fd: fd, rename: map[string]string{}, depth: depth, v2: true, cfg: cfg}
	if fd.Recv != nil && len(fd.Recv.List) == 1 && len(fd.Recv.List[0].Names) == 1 {
		t.recv[fd.Recv.List[0].Names[0].Name] = true
	}
	if fd.Type.Results != nil && len(fd.Type.Results.List) == 1 {
		if id, ok := fd.Type.Results.List[0].Type.(*ast.Ident); ok && id.Name == "bool" {
			t.boolFn = true
		}
	}
	t.prepass(fd)
	return t
}

func genGuards2For(repo string) func(*pkgSrc) (string, error) {
	return func(p *pkgSrc) (string, error) {
		pkgs := map[string]*pkgSrc{"": p}
		var sb strings.Builder
		sb.WriteString("import WS.Model.Guard\n-- GENERATED by /verif/extract (guards2.go) from /repo; do not edit.\nnamespace WS.Gen.Guards2\nopen WS.Model.Guard\n\n")
		cfgs := append([]g2cfg{}, guards2Funcs...)
		sort.Slice(cfgs, func(i, j int) bool { return cfgs[i].dir+"/"+cfgs[i].fn < cfgs[j].dir+"/"+cfgs[j].fn })
		for i := range cfgs {
			cfg := &cfgs[i]
			pk := pkgs[cfg.dir]
			if pk == nil {
				q, err := load(repo + "/" + cfg.dir)
				if err == nil {
					pk = q
					pkgs[cfg.dir] = q
				}
			}
			ident := leanIdent(strings.ReplaceAll(cfg.fn, ".", "_"))
			if cfg.dir != "" {
				ident = cfg.dir + "_" + ident
			}
			sb.WriteString(fmt.Sprintf("def g_%s : GProg :=\n  ", ident))
			var fd *ast.FuncDecl
			if pk != nil {
				fd = pk.funcs[cfg.fn]
			}
			if fd == nil || fd.Body == nil {
				sb.WriteString("[.unknown \"function not found\"]\n\n")
				continue
			}
			t := newGuardTr2(pk, evalConsts(pk), fd, cfg, 0)
			sb.WriteString(t.block(fd.Body.List))
			sb.WriteString("\n\n")
		}
		sb.WriteString("end WS.Gen.Guards2\n")
		return sb.String(), nil
	}
}
