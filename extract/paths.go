package main

import (
	"fmt"
	"sort"
	"strings"
)

// Path languages.  The ordered skeleton of a function (skeleton.go) is a token list: synchronisation
// primitives inside their control structure.  Two token lists that differ only in how the control flow is
// written (an if-chain or a switch, early returns or else branches, `continue` or a shared tail, merged
// branches …) describe the same set of primitive sequences along the paths from the function's entry to its
// exits.  This file computes that set as a canonical minimal DFA, so that the tie compares *languages*.
//
// Grammar of the token list:
//
//	seq  := item*
//	item := primitive | "return" | "break" | "continue"
//	      | "if{" seq ["}else{" seq] "}"
//	      | "for{" seq "}"            loop that can also end at its head (condition / range)
//	      | "loop{" seq "}"           `for { … }`: left only by break / return
//	      | "select{" clause* "}" | "switch{" clause* "}"     clause := ("case:" | "default:") seq
//	      | "defer{" seq "}" | "inline{" seq "}"             a nested body: `return` ends the body
//
// switch / select without a default clause: a switch may match no case (skip), a select blocks until a case is ready.

type nfa struct {
	eps  [][]int
	step []map[string][]int
}

func (a *nfa) state() int {
	a.eps = append(a.eps, nil)
	a.step = append(a.step, map[string][]int{})
	return len(a.eps) - 1
}
func (a *nfa) e(from, to int)               { a.eps[from] = append(a.eps[from], to) }
func (a *nfa) t(from int, s string, to int) { a.step[from][s] = append(a.step[from][s], to) }

type pathCtx struct {
	ret, brk, cont int // jump targets (-1: none)
	// blind: inside a deferred or inlined body conditions carry no knowledge (a deferred body runs at the function's
	// exit, not where it is registered; an inlined helper has its own variables)
	blind bool
	// loopExit / sawLoopCond: the innermost loop's exit and whether its condition was seen
	loopExit    int
	sawLoopCond *bool
}

type pathParser struct {
	tok  []string
	pos  int
	a    *nfa
	err  string
	cond string // the condition of the `if{` that follows
}

const (
	symTrue  = "\x00T:"
	symFalse = "\x00F:"
	symKill  = "\x00K:"
	symSet   = "\x00S:"
	symCopy  = "\x00C:"
)

// test compiles a condition (condExpr syntax) from state `from`: control reaches onTrue / onFalse through edges that
// record what was learned about the atoms.
func (p *pathParser) test(e string, from, onTrue, onFalse int, blind bool) {
	if blind || e == "" || e == "*" {
		p.a.e(from, onTrue)
		p.a.e(from, onFalse)
		return
	}
	switch e[0] {
	case '@':
		p.a.t(from, symTrue+e[1:], onTrue)
		p.a.t(from, symFalse+e[1:], onFalse)
	case '!':
		p.test(e[2:len(e)-1], from, onFalse, onTrue, blind)
	case '&', '|':
		// split the two arguments at the top-level comma
		depth, cut := 0, -1
		for i := 2; i < len(e)-1; i++ {
			switch e[i] {
			case '(':
				depth++
			case ')':
				depth--
			case ',':
				if depth == 0 && cut < 0 {
					cut = i
				}
			}
		}
		if cut < 0 {
			p.a.e(from, onTrue)
			p.a.e(from, onFalse)
			return
		}
		mid := p.a.state()
		if e[0] == '&' {
			p.test(e[2:cut], from, mid, onFalse, blind)
		} else {
			p.test(e[2:cut], from, onTrue, mid, blind)
		}
		p.test(e[cut+1:len(e)-1], mid, onTrue, onFalse, blind)
	default:
		p.a.e(from, onTrue)
		p.a.e(from, onFalse)
	}
}

var pathStruct = map[string]bool{"if{": true, "}else{": true, "}": true, "for{": true, "loop{": true, "select{": true, "switch{": true,
	"case:": true, "default:": true, "defer{": true, "inline{": true, "return": true, "break": true, "continue": true}

// seq parses items until a closing token ("}", "}else{", "case:", "default:") or the end; returns the state reached by
// falling through (or -1 when every path jumped away).
func (p *pathParser) seq(cur int, c pathCtx) int {
	for p.pos < len(p.tok) {
		t := p.tok[p.pos]
		if t == "}" || t == "}else{" || t == "case:" || t == "default:" {
			return cur
		}
		p.pos++
		if cur < 0 {
			// unreachable code after a jump: still parse it (into a dead state) to stay in step with the tokens
			cur = p.a.state()
			dead := cur
			_ = dead
		}
		if strings.HasPrefix(t, "cond:") {
			p.cond = t[5:]
			continue
		}
		if strings.HasPrefix(t, "loopcond:") {
			// the loop goes on only while its condition holds
			if c.sawLoopCond != nil {
				*c.sawLoopCond = true
			}
			n := p.a.state()
			p.test(t[9:], cur, n, c.loopExit, c.blind)
			cur = n
			continue
		}
		if strings.HasPrefix(t, "kill:") {
			n := p.a.state()
			p.a.t(cur, symKill+t[5:], n)
			cur = n
			continue
		}
		if strings.HasPrefix(t, "set:") || strings.HasPrefix(t, "copy:") {
			n := p.a.state()
			switch {
			case c.blind:
				// a deferred body runs later: what it would set is merely forgotten here
				target := t[strings.IndexByte(t, ':')+1:]
				if k := strings.Index(target, "<-"); k >= 0 {
					target = target[:k]
				} else {
					target = target[:len(target)-2]
				}
				p.a.t(cur, symSet+target+"=?", n)
			case strings.HasPrefix(t, "set:"):
				p.a.t(cur, symSet+t[4:], n)
			default:
				p.a.t(cur, symCopy+t[5:], n)
			}
			cur = n
			continue
		}
		switch t {
		case "return":
			p.a.e(cur, c.ret)
			cur = -1
		case "break":
			if c.brk >= 0 {
				p.a.e(cur, c.brk)
			}
			cur = -1
		case "continue":
			if c.cont >= 0 {
				p.a.e(cur, c.cont)
			}
			cur = -1
		case "if{":
			cond := p.cond
			p.cond = ""
			exit := p.a.state()
			thenIn, elseIn := p.a.state(), p.a.state()
			p.test(cond, cur, thenIn, elseIn, c.blind)
			if x := p.seq(thenIn, c); x >= 0 {
				p.a.e(x, exit)
			}
			if p.pos < len(p.tok) && p.tok[p.pos] == "}else{" {
				p.pos++
				if x := p.seq(elseIn, c); x >= 0 {
					p.a.e(x, exit)
				}
			} else {
				p.a.e(elseIn, exit)
			}
			p.expect("}")
			cur = exit
		case "for{", "loop{":
			head, exit := p.a.state(), p.a.state()
			p.a.e(cur, head)
			body := p.a.state()
			p.a.e(head, body)
			saw := false
			c2 := c
			c2.brk, c2.cont, c2.loopExit, c2.sawLoopCond = exit, head, exit, &saw
			if x := p.seq(body, c2); x >= 0 {
				p.a.e(x, head)
			}
			if t == "for{" && !saw {
				p.a.e(head, exit) // a range loop (or a condition that was not rendered): may end at its head
			}
			p.expect("}")
			cur = exit
		case "select{", "switch{":
			exit := p.a.state()
			hasDefault := false
			c2 := c
			c2.brk = exit
			for p.pos < len(p.tok) && (p.tok[p.pos] == "case:" || p.tok[p.pos] == "default:") {
				if p.tok[p.pos] == "default:" {
					hasDefault = true
				}
				p.pos++
				in := p.a.state()
				p.a.e(cur, in)
				if x := p.seq(in, c2); x >= 0 {
					p.a.e(x, exit)
				}
			}
			if t == "switch{" && !hasDefault {
				p.a.e(cur, exit)
			}
			p.expect("}")
			cur = exit
		case "defer{", "inline{":
			exit := p.a.state()
			in := p.a.state()
			p.a.e(cur, in)
			c2 := pathCtx{ret: exit, brk: -1, cont: -1, blind: t == "defer{" || c.blind, loopExit: -1}
			if x := p.seq(in, c2); x >= 0 {
				p.a.e(x, exit)
			}
			p.expect("}")
			cur = exit
		default:
			n := p.a.state()
			p.a.t(cur, t, n)
			cur = n
		}
	}
	return cur
}

func (p *pathParser) expect(t string) {
	if p.pos < len(p.tok) && p.tok[p.pos] == t {
		p.pos++
		return
	}
	if p.err == "" {
		p.err = fmt.Sprintf("token %d: expected %q", p.pos, t)
	}
}

type dfa struct {
	accept []bool
	next   []map[string]int
}

// item: an NFA state together with what is known about the condition atoms on the way there ("a=1;b=0", sorted).
type item struct {
	s int
	v string
}

func valGet(v, atom string) (bool, bool) {
	if v == "" {
		return false, false
	}
	for _, kv := range strings.Split(v, ";") {
		if len(kv) == len(atom)+2 && strings.HasPrefix(kv, atom+"=") {
			return kv[len(kv)-1] == '1', true
		}
	}
	return false, false
}

func valSet(v, atom string, b bool) string {
	var kvs []string
	if v != "" {
		kvs = strings.Split(v, ";")
	}
	x := "0"
	if b {
		x = "1"
	}
	kvs = append(kvs, atom+"="+x)
	sort.Strings(kvs)
	return strings.Join(kvs, ";")
}

// mentions: does the atom mention the variable / field chain `name` (as a whole identifier chain or a prefix of one)?
func mentions(atom, name string) bool {
	isId := func(c byte) bool {
		return c == '_' || c >= '0' && c <= '9' || c >= 'a' && c <= 'z' || c >= 'A' && c <= 'Z'
	}
	for i := 0; i+len(name) <= len(atom); i++ {
		if atom[i:i+len(name)] == name && (i == 0 || !(isId(atom[i-1]) || atom[i-1] == '.')) {
			j := i + len(name)
			if j == len(atom) || !isId(atom[j]) {
				return true
			}
		}
	}
	return false
}

func valKill(v string, pred func(atom string) bool) string {
	if v == "" {
		return v
	}
	var kvs []string
	for _, kv := range strings.Split(v, ";") {
		if !pred(kv[:len(kv)-2]) {
			kvs = append(kvs, kv)
		}
	}
	return strings.Join(kvs, ";")
}

// closure follows ε edges and the knowledge edges: a test edge is taken only if it does not contradict what is known (an
// infeasible path is dropped) and records what it learned; a kill edge forgets the atoms that mention the assigned variable.
func closure(a *nfa, set map[item]bool) {
	var stack []item
	for it := range set {
		stack = append(stack, it)
	}
	push := func(it item) {
		if !set[it] {
			set[it] = true
			stack = append(stack, it)
		}
	}
	for len(stack) > 0 {
		it := stack[len(stack)-1]
		stack = stack[:len(stack)-1]
		for _, t := range a.eps[it.s] {
			push(item{t, it.v})
		}
		for sym, tos := range a.step[it.s] {
			switch {
			case strings.HasPrefix(sym, symTrue), strings.HasPrefix(sym, symFalse):
				atom, want := sym[len(symTrue):], strings.HasPrefix(sym, symTrue)
				if known, ok := valGet(it.v, atom); ok {
					if known == want {
						for _, t := range tos {
							push(item{t, it.v})
						}
					}
					continue
				}
				nv := valSet(it.v, atom, want)
				for _, t := range tos {
					push(item{t, nv})
				}
			case strings.HasPrefix(sym, symKill):
				name := sym[len(symKill):]
				nv := valKill(it.v, func(atom string) bool { return mentions(atom, name) })
				for _, t := range tos {
					push(item{t, nv})
				}
			case strings.HasPrefix(sym, symSet):
				// "atom=1" / "atom=0" / "atom=?" (forget)
				body := sym[len(symSet):]
				atom, val := body[:len(body)-2], body[len(body)-1]
				nv := valKill(it.v, func(a string) bool { return a == atom })
				if val != '?' {
					nv = valSet(nv, atom, val == '1')
				}
				for _, t := range tos {
					push(item{t, nv})
				}
			case strings.HasPrefix(sym, symCopy):
				// "dst<-src": dst receives what is known about src
				body := sym[len(symCopy):]
				k := strings.Index(body, "<-")
				dst, src := body[:k], body[k+2:]
				nv := valKill(it.v, func(a string) bool { return a == dst })
				if known, ok := valGet(it.v, src); ok {
					nv = valSet(nv, dst, known)
				}
				for _, t := range tos {
					push(item{t, nv})
				}
			}
		}
	}
}

func setKey(set map[item]bool) string {
	var ks []string
	for it := range set {
		ks = append(ks, fmt.Sprintf("%d/%s", it.s, it.v))
	}
	sort.Strings(ks)
	return strings.Join(ks, " ")
}

// pathDFA: the minimal DFA of the token list's path language, canonically numbered.
func pathDFA(tokens []string) (*dfa, string) {
	a := &nfa{}
	start, final := a.state(), a.state()
	p := &pathParser{tok: tokens, a: a}
	if x := p.seq(start, pathCtx{ret: final, brk: -1, cont: -1, loopExit: -1}); x >= 0 {
		a.e(x, final)
	}
	if p.pos != len(tokens) && p.err == "" {
		p.err = fmt.Sprintf("token %d: unexpected %q", p.pos, tokens[p.pos])
	}
	if p.err != "" {
		return nil, p.err
	}
	// subset construction over (state, knowledge) items; knowledge edges belong to the closure, primitives are the alphabet
	s0 := map[item]bool{{start, ""}: true}
	closure(a, s0)
	index := map[string]int{setKey(s0): 0}
	sets := []map[item]bool{s0}
	d := &dfa{}
	for i := 0; i < len(sets); i++ {
		acc := false
		for it := range sets[i] {
			if it.s == final {
				acc = true
			}
		}
		d.accept = append(d.accept, acc)
		d.next = append(d.next, map[string]int{})
		syms := map[string]map[item]bool{}
		for it := range sets[i] {
			for sym, tos := range a.step[it.s] {
				if strings.HasPrefix(sym, "\x00") {
					continue
				}
				if syms[sym] == nil {
					syms[sym] = map[item]bool{}
				}
				// a primitive (a call, a lock operation, I/O) may change the connection's fields: only knowledge about
				// local variables survives it
				nv := valKill(it.v, func(atom string) bool { return strings.Contains(atom, ".") })
				for _, t := range tos {
					syms[sym][item{t, nv}] = true
				}
			}
		}
		for sym, set := range syms {
			closure(a, set)
			k := setKey(set)
			j, ok := index[k]
			if !ok {
				j = len(sets)
				index[k] = j
				sets = append(sets, set)
			}
			d.next[i][sym] = j
		}
		if len(sets) > 20000 {
			return nil, "path automaton too large"
		}
	}
	return minimise(d), ""
}

// minimise: remove states that cannot reach acceptance, merge equivalent states (Moore), renumber by BFS over sorted symbols.
func minimise(d *dfa) *dfa {
	n := len(d.accept)
	// co-reachability
	live := make([]bool, n)
	for changed := true; changed; {
		changed = false
		for i := 0; i < n; i++ {
			if live[i] {
				continue
			}
			ok := d.accept[i]
			for _, j := range d.next[i] {
				if live[j] {
					ok = true
				}
			}
			if ok {
				live[i] = true
				changed = true
			}
		}
	}
	class := make([]int, n)
	for i := range class {
		switch {
		case !live[i]:
			class[i] = 0
		case d.accept[i]:
			class[i] = 2
		default:
			class[i] = 1
		}
	}
	for {
		sig := make([]string, n)
		for i := 0; i < n; i++ {
			var parts []string
			for sym, j := range d.next[i] {
				if live[j] {
					parts = append(parts, fmt.Sprintf("%s>%d", sym, class[j]))
				}
			}
			sort.Strings(parts)
			sig[i] = fmt.Sprintf("%d|%s", class[i], strings.Join(parts, ";"))
		}
		ids := map[string]int{}
		nc := make([]int, n)
		for i := 0; i < n; i++ {
			if !live[i] {
				nc[i] = 0
				continue
			}
			id, ok := ids[sig[i]]
			if !ok {
				id = len(ids) + 1
				ids[sig[i]] = id
			}
			nc[i] = id
		}
		same := true
		// the partition is stable when the number of classes no longer grows
		cnt := func(c []int) int {
			m := map[int]bool{}
			for _, x := range c {
				m[x] = true
			}
			return len(m)
		}
		if cnt(nc) != cnt(class) {
			same = false
		}
		class = nc
		if same {
			break
		}
	}
	// canonical numbering by BFS from the start class
	if !live[0] {
		return &dfa{accept: []bool{false}, next: []map[string]int{{}}}
	}
	rep := map[int]int{} // class -> representative state
	for i := 0; i < n; i++ {
		if live[i] {
			if _, ok := rep[class[i]]; !ok {
				rep[class[i]] = i
			}
		}
	}
	order := []int{class[0]}
	num := map[int]int{class[0]: 0}
	out := &dfa{}
	for k := 0; k < len(order); k++ {
		s := rep[order[k]]
		out.accept = append(out.accept, d.accept[s])
		out.next = append(out.next, map[string]int{})
		var syms []string
		for sym, j := range d.next[s] {
			if live[j] {
				syms = append(syms, sym)
			}
		}
		sort.Strings(syms)
		for _, sym := range syms {
			c := class[d.next[s][sym]]
			if _, ok := num[c]; !ok {
				num[c] = len(order)
				order = append(order, c)
			}
			out.next[k][sym] = num[c]
		}
	}
	return out
}

// rows: the canonical textual form compared by the Lean obligation.
func (d *dfa) rows() []string {
	var out []string
	for i := range d.accept {
		var syms []string
		for s := range d.next[i] {
			syms = append(syms, s)
		}
		sort.Strings(syms)
		var parts []string
		for _, s := range syms {
			parts = append(parts, fmt.Sprintf("%s -> %d", s, d.next[i][s]))
		}
		acc := ""
		if d.accept[i] {
			acc = " (exit)"
		}
		out = append(out, fmt.Sprintf("%d%s: %s", i, acc, strings.Join(parts, " | ")))
	}
	return out
}

func pathRows(tokens []string) []string {
	d, err := pathDFA(tokens)
	if d == nil {
		return []string{"unparsable skeleton: " + err}
	}
	return d.rows()
}

// distinguish returns a shortest primitive sequence that is a complete path of exactly one of the two token lists.
func distinguish(a, b []string) string {
	da, ea := pathDFA(a)
	db, eb := pathDFA(b)
	if da == nil || db == nil {
		return "unparsable skeleton: " + ea + eb
	}
	type pair struct{ x, y int } // -1 = dead
	type item struct {
		p    pair
		word []string
	}
	seen := map[pair]bool{{0, 0}: true}
	queue := []item{{pair{0, 0}, nil}}
	acc := func(d *dfa, s int) bool { return s >= 0 && d.accept[s] }
	for len(queue) > 0 {
		it := queue[0]
		queue = queue[1:]
		if acc(da, it.p.x) != acc(db, it.p.y) {
			who := "the source"
			if acc(da, it.p.x) {
				who = "the skeleton"
			}
			return fmt.Sprintf("only %s has the path [%s]", who, strings.Join(it.word, ", "))
		}
		syms := map[string]bool{}
		if it.p.x >= 0 {
			for s := range da.next[it.p.x] {
				syms[s] = true
			}
		}
		if it.p.y >= 0 {
			for s := range db.next[it.p.y] {
				syms[s] = true
			}
		}
		var ss []string
		for s := range syms {
			ss = append(ss, s)
		}
		sort.Strings(ss)
		for _, s := range ss {
			nx, ny := -1, -1
			if it.p.x >= 0 {
				if j, ok := da.next[it.p.x][s]; ok {
					nx = j
				}
			}
			if it.p.y >= 0 {
				if j, ok := db.next[it.p.y][s]; ok {
					ny = j
				}
			}
			np := pair{nx, ny}
			if !seen[np] {
				seen[np] = true
				queue = append(queue, item{np, append(append([]string{}, it.word...), s)})
			}
		}
	}
	return ""
}
