module verifextract

go 1.19
