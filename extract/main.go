// Command extract regenerates the Lean files under WS/Gen from the current working tree of
// the repository.  Standard library only.  Anything it does not recognise is emitted as an
// explicit `.unknown` marker (never skipped), so that the Lean obligations over the generated
// definitions fail instead of silently passing.
package main

import (
	"bytes"
	"encoding/json"
	"flag"
	"fmt"
	"go/ast"
	"go/build"
	"go/parser"
	"go/printer"
	"go/token"
	"os"
	"path/filepath"
	"sort"
	"strings"
)

type pkgSrc struct {
	fset  *token.FileSet
	files map[string]*ast.File // by base name
	funcs map[string]*ast.FuncDecl
	src   map[string][]byte
}

func load(dir string) (*pkgSrc, error) {
	ctx := build.Default
	ctx.GOARCH = "amd64"
	ctx.GOOS = "linux"
	ctx.BuildTags = nil
	bp, err := ctx.ImportDir(dir, 0)
	if err != nil {
		return nil, err
	}
	p := &pkgSrc{fset: token.NewFileSet(), files: map[string]*ast.File{}, funcs: map[string]*ast.FuncDecl{}, src: map[string][]byte{}}
	names := append([]string{}, bp.GoFiles...)
	sort.Strings(names)
	for _, n := range names {
		b, err := os.ReadFile(filepath.Join(dir, n))
		if err != nil {
			return nil, err
		}
		f, err := parser.ParseFile(p.fset, n, b, parser.ParseComments)
		if err != nil {
			return nil, err
		}
		p.files[n] = f
		p.src[n] = b
		for _, d := range f.Decls {
			if fd, ok := d.(*ast.FuncDecl); ok {
				p.funcs[funcKey(fd)] = fd
			}
		}
	}
	return p, nil
}

func funcKey(fd *ast.FuncDecl) string {
	if fd.Recv != nil && len(fd.Recv.List) == 1 {
		t := fd.Recv.List[0].Type
		if s, ok := t.(*ast.StarExpr); ok {
			t = s.X
		}
		if id, ok := t.(*ast.Ident); ok {
			return id.Name + "." + fd.Name.Name
		}
	}
	return fd.Name.Name
}

func (p *pkgSrc) str(n ast.Node) string {
	var buf bytes.Buffer
	printer.Fprint(&buf, p.fset, n)
	return buf.String()
}

func leanStr(s string) string {
	s = strings.ReplaceAll(s, "\\", "\\\\")
	s = strings.ReplaceAll(s, "\"", "\\\"")
	s = strings.ReplaceAll(s, "\n", "\\n")
	s = strings.ReplaceAll(s, "\t", " ")
	return "\"" + s + "\""
}

// writeIfChanged keeps timestamps stable so that lake only rebuilds dependants of changed files.
func writeIfChanged(path string, content string) error {
	old, err := os.ReadFile(path)
	if err == nil && string(old) == content {
		return nil
	}
	return os.WriteFile(path, []byte(content), 0o644)
}

func main() {
	repo := flag.String("repo", "/repo", "repository working tree")
	out := flag.String("out", "/verif/lean/WS/Gen", "output directory for generated Lean files")
	jsonOut := flag.String("json", "", "also write the ordered skeleton as JSON to this file (for diagnostics and for bin/skeleton-snapshot)")
	golden := flag.String("golden", "/verif/cir/skeleton_ordered.json", "the committed ordered skeleton (declared side of the path-language tie)")
	diff := flag.Bool("diff", false, "print, per function whose path language differs from the golden one, a shortest distinguishing path")
	flag.Parse()
	goldenPath = *golden
	p, err := load(*repo)
	if err != nil {
		fmt.Fprintln(os.Stderr, "extract: load:", err)
		os.Exit(2)
	}
	if *diff {
		want := map[string][]string{}
		if b, err := os.ReadFile(goldenPath); err == nil {
			json.Unmarshal(b, &want)
		}
		got := genSkeletonOrdered(p)
		names := map[string]bool{}
		for n := range want {
			names[n] = true
		}
		for n := range got {
			names[n] = true
		}
		var ns []string
		for n := range names {
			ns = append(ns, n)
		}
		sort.Strings(ns)
		for _, n := range ns {
			if d := distinguish(want[n], got[n]); d != "" {
				fmt.Printf("PATHDIFF %s: %s\n", n, d)
			}
		}
		return
	}
	gens := []struct {
		name string
		fn   func(*pkgSrc) (string, error)
	}{
		{"MaskProg.lean", genMask},
		{"Facts.lean", genFacts},
		{"IntFns.lean", genIntFns},
		{"Skeleton.lean", genSkeleton},
		{"Guards.lean", genGuards},
		{"Guards2.lean", genGuards2For(*repo)},
	}
	if *jsonOut != "" {
		b, _ := json.MarshalIndent(genSkeletonOrdered(p), "", " ")
		if err := os.WriteFile(*jsonOut, append(b, '\n'), 0o644); err != nil {
			fmt.Fprintln(os.Stderr, "extract: write json:", err)
			os.Exit(2)
		}
	}
	for _, g := range gens {
		s, err := g.fn(p)
		if err != nil {
			fmt.Fprintln(os.Stderr, "extract:", g.name, err)
			os.Exit(2)
		}
		if err := writeIfChanged(filepath.Join(*out, g.name), s); err != nil {
			fmt.Fprintln(os.Stderr, "extract: write:", err)
			os.Exit(2)
		}
	}
}
