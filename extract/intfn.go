package main

import (
	"fmt"
	"go/ast"
	"go/token"
	"strings"
)

// Integer-predicate functions (func f(code T) bool made of switch-case-return, if-return and
// return statements over comparisons with constants) → WS.Model.IntPred DSL.

type intTr struct {
	p   *pkgSrc
	ct  *constTable
	arg string
	// local boolean variables defined from comparisons of the argument (`inRange := code >= a && code <= b`)
	locals map[string]string
}

func (t *intTr) cond(e ast.Expr) (string, bool) {
	switch e := e.(type) {
	case *ast.ParenExpr:
		return t.cond(e.X)
	case *ast.Ident:
		if e.Name == "true" {
			return ".tt", true
		}
		if e.Name == "false" {
			return ".ff", true
		}
		if c, ok := t.locals[e.Name]; ok {
			return c, true
		}
	case *ast.UnaryExpr:
		if e.Op == token.NOT {
			if a, ok := t.cond(e.X); ok {
				return fmt.Sprintf("(.not %s)", a), true
			}
		}
	case *ast.BinaryExpr:
		switch e.Op {
		case token.LAND, token.LOR:
			a, ok1 := t.cond(e.X)
			b, ok2 := t.cond(e.Y)
			if !ok1 || !ok2 {
				return "", false
			}
			if e.Op == token.LAND {
				return fmt.Sprintf("(.and %s %s)", a, b), true
			}
			return fmt.Sprintf("(.or %s %s)", a, b), true
		case token.GEQ, token.LEQ, token.GTR, token.LSS, token.EQL, token.NEQ:
			x, y, op := e.X, e.Y, e.Op
			if t.p.str(x) != t.arg && t.p.str(y) == t.arg {
				// constant on the left: k <= code  ≡  code >= k
				x, y = y, x
				op = map[token.Token]token.Token{token.GEQ: token.LEQ, token.LEQ: token.GEQ, token.GTR: token.LSS, token.LSS: token.GTR, token.EQL: token.EQL, token.NEQ: token.NEQ}[op]
			}
			if t.p.str(x) != t.arg {
				return "", false
			}
			v, ok := t.ct.eval(y, 0)
			if !ok {
				return "", false
			}
			name := map[token.Token]string{token.GEQ: "ge", token.LEQ: "le", token.GTR: "gt", token.LSS: "lt", token.EQL: "eq", token.NEQ: "ne"}[op]
			return fmt.Sprintf("(.%s %s)", name, leanInt(v)), true
		}
	}
	return "", false
}

func boolLit(e ast.Expr) (string, bool) {
	if id, ok := e.(*ast.Ident); ok && (id.Name == "true" || id.Name == "false") {
		return id.Name, true
	}
	return "", false
}

func (t *intTr) stmts(list []ast.Stmt) []string {
	var out []string
	for _, s := range list {
		// `name := <condition>`: remembered and substituted where the name is used
		if as, ok := s.(*ast.AssignStmt); ok && as.Tok == token.DEFINE && len(as.Lhs) == 1 && len(as.Rhs) == 1 {
			if id, ok := as.Lhs[0].(*ast.Ident); ok {
				if c, ok := t.cond(as.Rhs[0]); ok {
					if t.locals == nil {
						t.locals = map[string]string{}
					}
					t.locals[id.Name] = c
					continue
				}
			}
		}
		out = append(out, t.stmt(s))
	}
	return out
}

func (t *intTr) stmt(s ast.Stmt) string {
	unk := ".unknown " + leanStr(normSrc(t.p.str(s)))
	switch s := s.(type) {
	case *ast.ReturnStmt:
		if len(s.Results) == 1 {
			if b, ok := boolLit(s.Results[0]); ok {
				return ".ret " + b
			}
			if c, ok := t.cond(s.Results[0]); ok {
				return ".retCond " + c
			}
		}
	case *ast.IfStmt:
		if s.Init == nil && s.Else == nil && len(s.Body.List) == 1 {
			if r, ok := s.Body.List[0].(*ast.ReturnStmt); ok && len(r.Results) == 1 {
				if b, ok := boolLit(r.Results[0]); ok {
					if c, ok := t.cond(s.Cond); ok {
						return fmt.Sprintf(".ifRet %s %s", c, b)
					}
				}
			}
		}
	case *ast.SwitchStmt:
		if s.Init == nil && s.Tag == nil {
			// tagless switch: `case c1, c2: return b` is `if c1 || c2 { return b }`; `default: return b` applies when
			// no case does, wherever it stands
			var items []string
			def := ""
			for _, cc := range s.Body.List {
				c := cc.(*ast.CaseClause)
				if len(c.Body) != 1 {
					return unk
				}
				r, ok := c.Body[0].(*ast.ReturnStmt)
				if !ok || len(r.Results) != 1 {
					return unk
				}
				b, ok := boolLit(r.Results[0])
				if !ok {
					return unk
				}
				if c.List == nil {
					def = ".ret " + b
					continue
				}
				cond := ""
				for i := len(c.List) - 1; i >= 0; i-- {
					x, ok := t.cond(c.List[i])
					if !ok {
						return unk
					}
					if cond == "" {
						cond = x
					} else {
						cond = fmt.Sprintf("(.or %s %s)", x, cond)
					}
				}
				items = append(items, fmt.Sprintf(".ifRet %s %s", cond, b))
			}
			if def != "" {
				items = append(items, def)
			}
			if len(items) == 0 {
				return unk
			}
			return strings.Join(items, ",\n   ")
		}
		if s.Init == nil && s.Tag != nil && t.p.str(s.Tag) == t.arg {
			var items []string
			for _, cc := range s.Body.List {
				c := cc.(*ast.CaseClause)
				if c.List == nil || len(c.Body) != 1 {
					return unk
				}
				r, ok := c.Body[0].(*ast.ReturnStmt)
				if !ok || len(r.Results) != 1 {
					return unk
				}
				b, ok := boolLit(r.Results[0])
				if !ok {
					return unk
				}
				var vals []string
				for _, e := range c.List {
					v, ok := t.ct.eval(e, 0)
					if !ok {
						return unk
					}
					vals = append(vals, leanInt(v))
				}
				items = append(items, fmt.Sprintf(".switchRet [%s] %s", strings.Join(vals, ", "), b))
			}
			return strings.Join(items, ",\n   ")
		}
	}
	return unk
}

func genIntFns(p *pkgSrc) (string, error) {
	ct := evalConsts(p)
	var sb strings.Builder
	sb.WriteString("import WS.Model.IntPred\n-- GENERATED by /verif/extract from /repo/close.go; do not edit.\nnamespace WS.Gen\nopen WS.Model\n\n")
	for _, fn := range []string{"validWireCloseCode"} {
		fd := p.funcs[fn]
		sb.WriteString(fmt.Sprintf("def %s : IntPred :=\n  [", fn))
		if fd == nil || fd.Body == nil || fd.Type.Params == nil || len(fd.Type.Params.List) != 1 || len(fd.Type.Params.List[0].Names) != 1 {
			sb.WriteString(".unknown \"function not found or unexpected signature\"]\n\n")
			continue
		}
		t := &intTr{p: p, ct: ct, arg: fd.Type.Params.List[0].Names[0].Name}
		sb.WriteString(strings.Join(t.stmts(fd.Body.List), ",\n   "))
		sb.WriteString("]\n\n")
	}
	sb.WriteString("end WS.Gen\n")
	return sb.String(), nil
}
