package main

import (
	"fmt"
	"go/ast"
	"go/token"
	"sort"
	"strings"
)

// Decision skeletons (WS.Model.Guard DSL): the if / switch / return structure of selected functions over
// boolean atoms (fields, flags, opaque conditions) and integer atoms compared with constants; calls of
// the package's own functions and methods are kept as named actions, everything else that is not control
// flow is skipped, anything that is control flow and not understood becomes `.unknown` (never dropped).

type guardTr struct {
	p    *pkgSrc
	ct   *constTable
	recv map[string]bool // identifiers that denote the connection or one of its parts (receiver chains)
	fd   *ast.FuncDecl
	// rename: parameters of a helper rendered in place, mapped to the atoms of the arguments it was called with
	rename map[string]string
	depth  int
	// boolean result functions return "true"/"false"; functions whose last result is `error` return "ok"/"err"
	boolFn bool
	// second generation (guards2.go): external calls as actions, status results, local definitions, error sentinels
	v2     bool
	cfg    *g2cfg
	defs   map[string]string // single-assignment locals -> their defining expression (normalised)
	nasg   map[string]int    // number of assignments per local identifier
	errCmp map[string][]string // per error variable: the things it is compared with ("nil", "io.EOF", …)
	ver    map[string]int      // tracked integer targets: number of top-level re-assignments so far (later atoms get primes)
	bools  map[string]bool     // identifiers used as bare conditions
	blk    int                 // nesting depth of the block being rendered
	hoisted map[*ast.CallExpr]string // boolean helpers of the package used inside a condition, rendered in front of the `if`
	nhoist *int
	ncall  map[string]int      // per callee: call sites named so far (the k-th is `<callee>@k` for k > 1)
}

// atom normalises a selector chain: the receiver prefix (c., mr.c., mw.c., mr., mw.) is dropped.
func (t *guardTr) atom(e ast.Expr) (string, bool) {
	var parts []string
	for {
		switch x := e.(type) {
		case *ast.SelectorExpr:
			parts = append([]string{x.Sel.Name}, parts...)
			e = x.X
			continue
		case *ast.Ident:
			parts = append([]string{x.Name}, parts...)
		default:
			return "", false
		}
		break
	}
	// drop leading receiver identifiers and the `c` hop
	dropped := false
	for len(parts) > 1 && (t.recv[parts[0]] || parts[0] == "c") {
		parts = parts[1:]
		dropped = true
	}
	if r, ok := t.rename[parts[0]]; ok {
		parts[0] = r
	}
	if t.v2 && !dropped {
		if d, ok := t.defs[parts[0]]; ok {
			parts[0] = d
		}
	}
	name := strings.Join(parts, ".")
	if t.v2 && t.ver[name] > 0 {
		name += strings.Repeat("'", t.ver[name])
	}
	return name, true
}

func (t *guardTr) isLocalCall(c *ast.CallExpr) (string, bool) {
	switch f := c.Fun.(type) {
	case *ast.Ident:
		if f.Name == "verifEvent" || f.Name == "verifFrameEvent" {
			return "", false // hooks of the verification harness: no effect on the connection
		}
		if _, ok := t.p.funcs[f.Name]; ok {
			return f.Name, true
		}
		for k := range t.p.funcs {
			if strings.HasSuffix(k, "."+f.Name) {
				return f.Name, true
			}
		}
	case *ast.SelectorExpr:
		// method on the connection or one of its parts: root identifier is a receiver name
		root := f.X
		for {
			if s, ok := root.(*ast.SelectorExpr); ok {
				root = s.X
				continue
			}
			break
		}
		if id, ok := root.(*ast.Ident); ok && (t.recv[id.Name] || id.Name == "c") {
			a, _ := t.atom(f)
			return a, true
		}
		if t.v2 {
			// a method of a type of this package called on a local value: the method name identifies it when it is unique
			// in the package and no listed external callee has that spelling
			if t.cfg != nil && inList(t.cfg.acts, t.calleeName(c.Fun)) {
				return "", false
			}
			n := 0
			for k := range t.p.funcs {
				if strings.HasSuffix(k, "."+f.Sel.Name) {
					n++
				}
			}
			if _, isPkgFn := t.p.funcs[f.Sel.Name]; n == 1 && !isPkgFn && !stdMethod[f.Sel.Name] {
				return f.Sel.Name, true
			}
		}
	}
	return "", false
}

// method names that are common in the standard library: a call `x.Read(…)` on a local value is not taken for the package's
// own method of that name
var stdMethod = map[string]bool{"Read": true, "Write": true, "Close": true, "String": true, "Error": true, "Lock": true, "Unlock": true,
	"Reset": true, "Get": true, "Put": true, "Set": true, "Flush": true, "Header": true, "Bytes": true, "Done": true, "Err": true, "Stop": true,
	"Load": true, "Store": true, "Add": true, "Values": true, "Encode": true, "Decode": true, "ReadFrom": true, "WriteHeader": true, "Hijack": true}


func (t *guardTr) cond(e ast.Expr) string {
	switch e := e.(type) {
	case *ast.ParenExpr:
		return t.cond(e.X)
	case *ast.Ident:
		if e.Name == "true" {
			return ".tt"
		}
		if e.Name == "false" {
			return ".ff"
		}
		return ".v " + leanStr(e.Name)
	case *ast.SelectorExpr:
		if a, ok := t.atom(e); ok {
			return ".v " + leanStr(a)
		}
	case *ast.UnaryExpr:
		if e.Op == token.NOT {
			return fmt.Sprintf(".not (%s)", t.cond(e.X))
		}
	case *ast.CallExpr:
		if h, ok := t.hoisted[e]; ok {
			return ".v " + leanStr(h)
		}
		if name, ok := t.isLocalCall(e); ok {
			// zero-argument methods are boolean atoms (c.flate()); others are boolean helpers evaluated in place
			if len(e.Args) == 0 {
				return ".v " + leanStr(name+"()")
			}
			if t.v2 {
				return ".v " + leanStr(t.normExpr(e))
			}
			return ".call " + leanStr(name)
		}
	case *ast.BinaryExpr:
		switch e.Op {
		case token.LAND:
			return fmt.Sprintf(".and (%s) (%s)", t.cond(e.X), t.cond(e.Y))
		case token.LOR:
			return fmt.Sprintf(".or (%s) (%s)", t.cond(e.X), t.cond(e.Y))
		case token.GEQ, token.LEQ, token.GTR, token.LSS, token.EQL, token.NEQ:
			x, y, op := e.X, e.Y, e.Op
			// x == nil / x != nil: one atom "<x>!=nil", negated for ==
			if id, ok := y.(*ast.Ident); ok && id.Name == "nil" && (op == token.EQL || op == token.NEQ) {
				a := ".v " + leanStr(t.normExpr(x)+"!=nil")
				if op == token.EQL {
					return fmt.Sprintf(".not (%s)", a)
				}
				return a
			}
			if _, ok := t.evalConst(x); ok {
				x, y = y, x
				op = map[token.Token]token.Token{token.GEQ: token.LEQ, token.LEQ: token.GEQ, token.GTR: token.LSS, token.LSS: token.GTR, token.EQL: token.EQL, token.NEQ: token.NEQ}[op]
			}
			if v, ok := t.evalConst(y); ok {
				if a, ok := t.atom(x); ok {
					name := map[token.Token]string{token.GEQ: "ge", token.LEQ: "le", token.GTR: "gt", token.LSS: "lt", token.EQL: "eq", token.NEQ: "ne"}[op]
					return fmt.Sprintf(".%s %s %s", name, leanStr(a), leanInt(v))
				}
			}
		}
	}
	// an opaque boolean condition (CloseStatus(err) != -1, len(p) >= threshold, …): an atom named by its source, with
	// receiver chains normalised like every other atom and comparisons in one canonical direction (== is the negation
	// of !=, >= of <, > is < with the operands swapped, <= its negation)
	if b, ok := e.(*ast.BinaryExpr); ok {
		x, y := t.normExpr(b.X), t.normExpr(b.Y)
		switch b.Op {
		case token.NEQ:
			return ".v " + leanStr(x+"!="+y)
		case token.EQL:
			return fmt.Sprintf(".not (.v %s)", leanStr(x+"!="+y))
		case token.LSS:
			return ".v " + leanStr(x+"<"+y)
		case token.GEQ:
			return fmt.Sprintf(".not (.v %s)", leanStr(x+"<"+y))
		case token.GTR:
			return ".v " + leanStr(y+"<"+x)
		case token.LEQ:
			return fmt.Sprintf(".not (.v %s)", leanStr(y+"<"+x))
		}
	}
	return ".v " + leanStr(t.normExpr(e))
}

// isBoolExpr: syntactically boolean (used to recognise local boolean variables).
func isBoolExpr(e ast.Expr) bool {
	switch x := e.(type) {
	case *ast.ParenExpr:
		return isBoolExpr(x.X)
	case *ast.UnaryExpr:
		return x.Op == token.NOT
	case *ast.BinaryExpr:
		switch x.Op {
		case token.LAND, token.LOR, token.EQL, token.NEQ, token.LSS, token.LEQ, token.GTR, token.GEQ:
			return true
		}
	case *ast.Ident:
		return x.Name == "true" || x.Name == "false"
	}
	return false
}

// isErrCtor: errors.New(...) / fmt.Errorf(...): a non-nil error.
func isErrCtor(e ast.Expr) bool {
	if c, ok := e.(*ast.CallExpr); ok {
		if s, ok := c.Fun.(*ast.SelectorExpr); ok {
			if id, ok := s.X.(*ast.Ident); ok {
				return (id.Name == "errors" && s.Sel.Name == "New") || (id.Name == "fmt" && s.Sel.Name == "Errorf")
			}
		}
	}
	return false
}

func (t *guardTr) normExpr(e ast.Expr) string {
	if t.v2 {
		if _, isId := e.(*ast.Ident); !isId {
			if v, ok := t.evalConst(e); ok {
				return fmt.Sprint(v)
			}
		}
	}
	switch x := e.(type) {
	case *ast.ParenExpr:
		return "(" + t.normExpr(x.X) + ")"
	case *ast.Ident, *ast.SelectorExpr:
		if a, ok := t.atom(e); ok {
			return a
		}
	case *ast.BinaryExpr:
		return t.normExpr(x.X) + x.Op.String() + t.normExpr(x.Y)
	case *ast.UnaryExpr:
		return x.Op.String() + t.normExpr(x.X)
	case *ast.CallExpr:
		var args []string
		for _, a := range x.Args {
			args = append(args, t.normExpr(a))
		}
		return t.normExpr(x.Fun) + "(" + strings.Join(args, ",") + ")"
	case *ast.IndexExpr:
		if t.v2 {
			xs, ix := t.normExpr(x.X), t.normExpr(x.Index)
			if strings.HasPrefix(xs, "make(map[") {
				return "lookup(" + xs + ")"
			}
			if ix == "idx("+xs+")" {
				return "elem(" + xs + ")"
			}
			return xs + "[" + ix + "]"
		}
	}
	return strings.ReplaceAll(normSrc(t.p.str(e)), " ", "")
}

func (t *guardTr) block(list []ast.Stmt) string {
	var out []string
	t.blk++
	for _, s := range list {
		out = append(out, t.stmt(s)...)
	}
	t.blk--
	return "[" + strings.Join(out, ", ") + "]"
}

// guardActions: the calls the decision tables of WS/Props/GuardsDefs.lean speak about. A call of any *other* function or
// method of the package is a helper the code was split into: it is rendered in place (inlineHelper).
var guardActions = map[string]bool{"writeError": true, "writeMu.lock": true, "readLoop": true, "readFramePayload": true, "mask": true,
	"writeFramePayload": true, "writeFrameMu.lock": true, "writeFrameHeader": true, "writeFrame": true, "writeControl": true,
	"writeClose": true, "write": true, "setFrame": true, "readMu.lock": true, "readFrameHeader": true, "putFlateWriter": true,
	"parseClosePayload": true, "mu.unlock": true, "msgReader.reset": true, "handleControl": true, "flateWriter.Write": true,
	"flateWriter.Flush": true, "flateTail.Read": true, "ensureFlate": true, "bw.Flush": true, "activePingsMu.Unlock": true,
	"activePingsMu.Lock": true, "writeFrameMu.unlock": true, "writeMu.unlock": true, "readUnlock": true, "mu.lock": true,
	"reset": true, "close": true, "flateContextTakeover": true, "readRSV1Illegal": true, "flate": true}

// helperDecl: the declaration of a package function / method the call refers to, when it is a helper to render in place.
func (t *guardTr) helperDecl(c *ast.CallExpr, name string) *ast.FuncDecl {
	if t.depth >= 3 {
		return nil
	}
	if t.v2 {
		if t.cfg != nil && inList(t.cfg.local, name) {
			return nil
		}
	} else if guardActions[name] {
		return nil
	}
	var sel string
	switch f := c.Fun.(type) {
	case *ast.Ident:
		sel = f.Name
	case *ast.SelectorExpr:
		sel = f.Sel.Name
	default:
		return nil
	}
	if t.v2 {
		if t.cfg != nil && inList(t.cfg.local, sel) {
			return nil
		}
	} else if guardActions[sel] {
		return nil
	}
	var cands []*ast.FuncDecl
	for k, fd := range t.p.funcs {
		if k == sel || strings.HasSuffix(k, "."+sel) {
			cands = append(cands, fd)
		}
	}
	if len(cands) != 1 || cands[0].Body == nil {
		return nil
	}
	if t.v2 && !decides(cands[0]) {
		return nil
	}
	return cands[0]
}

// inlineHelper renders the body of a helper in place of its call: its parameters stand for the atoms of the arguments, its
// receiver for the connection.
func (t *guardTr) inlineHelper(fd *ast.FuncDecl, c *ast.CallExpr) string {
	t2 := &guardTr{p: t.p, ct: t.ct, recv: map[string]bool{}, fd: fd, rename: map[string]string{}, depth: t.depth + 1}
	if t.v2 {
		t2.v2, t2.cfg = true, t.cfg
		t2.prepass(fd)
		if t.nhoist == nil {
			t.nhoist = new(int)
		}
		t2.nhoist = t.nhoist
	}
	if fd.Recv != nil && len(fd.Recv.List) == 1 && len(fd.Recv.List[0].Names) == 1 {
		t2.recv[fd.Recv.List[0].Names[0].Name] = true
	}
	i := 0
	for _, f := range fd.Type.Params.List {
		for _, n := range f.Names {
			if i < len(c.Args) {
				if a, ok := t.atom(c.Args[i]); ok {
					t2.rename[n.Name] = a
				} else if bl, ok := c.Args[i].(*ast.BasicLit); ok && t.v2 {
					t2.rename[n.Name] = strings.ReplaceAll(bl.Value, " ", "")
				}
			}
			i++
		}
	}
	if fd.Type.Results != nil && len(fd.Type.Results.List) == 1 {
		if id, ok := fd.Type.Results.List[0].Type.(*ast.Ident); ok && id.Name == "bool" {
			t2.boolFn = true
		}
	}
	return t2.block(fd.Body.List)
}

func (t *guardTr) callActs(e ast.Expr) []string {
	if c, ok := e.(*ast.CallExpr); ok {
		if name, ok := t.isLocalCall(c); ok {
			if t.v2 && t.cfg != nil && inList(t.cfg.pure, name) {
				return nil
			}
			if t.v2 && t.cfg != nil && !inList(t.cfg.local, name) && !inList(t.cfg.lfull, name) && t.isPureHelper(c) {
				return nil
			}
			if fd := t.helperDecl(c, name); fd != nil {
				return []string{".scope \"\" " + t.inlineHelper(fd, c)}
			}
			if t.v2 && t.cfg != nil && inList(t.cfg.lfull, name) {
				var args []string
				for _, a := range c.Args {
					args = append(args, t.normExpr(a))
				}
				return []string{".act " + leanStr(name+"("+strings.Join(args, ",")+")")}
			}
			return []string{".act " + leanStr(name)}
		}
		if t.v2 {
			if a, ok := t.extAct(c, ""); ok {
				return []string{a}
			}
		}
	}
	return nil
}

func (t *guardTr) stmt(s ast.Stmt) []string {
	unk := []string{".unknown " + leanStr(normSrc(t.p.str(s)))}
	switch s := s.(type) {
	case *ast.ReturnStmt:
		if t.boolFn && len(s.Results) == 1 {
			if b, ok := boolLit(s.Results[0]); ok {
				return []string{".ret " + leanStr(b)}
			}
			return []string{".retExp (" + t.cond(s.Results[0]) + ")"}
		}
		if len(s.Results) == 0 {
			return []string{".ret \"named\""}
		}
		if t.v2 {
			if r, ok := t.returnV2(s); ok {
				return r
			}
		}
		last := s.Results[len(s.Results)-1]
		var pre []string
		for _, r := range s.Results {
			pre = append(pre, t.callActs(r)...)
		}
		if id, ok := last.(*ast.Ident); ok && id.Name == "nil" {
			return append(pre, ".ret \"ok\"")
		}
		if id, ok := last.(*ast.Ident); ok {
			// `return …, err`: an error exactly when the variable is non-nil
			return append(pre, fmt.Sprintf(".ifElse (.v %s) [.ret \"err\"] [.ret \"ok\"]", leanStr(id.Name+"!=nil")))
		}
		if lc, ok := last.(*ast.CallExpr); ok && len(s.Results) == 1 {
			if name, ok := t.isLocalCall(lc); ok {
				if fd := t.helperDecl(lc, name); fd != nil {
					// `return helper(...)`: the helper's returns are this function's
					body := t.inlineHelper(fd, lc)
					return []string{strings.TrimSuffix(strings.TrimPrefix(body, "["), "]")}
				}
			}
		}
		if lc, ok := last.(*ast.CallExpr); ok && len(pre) > 0 && t.v2 {
			return append(pre, fmt.Sprintf(".ifElse (.v %s) [.ret \"err\"] [.ret \"ok\"]", leanStr(t.callSite(lc)+":err!=nil")))
		}
		if _, ok := last.(*ast.CallExpr); ok && len(pre) > 0 {
			// `return c.f(...)`: the callee decides — an error exactly when the call failed
			return append(pre, ".ifElse (.v \"err!=nil\") [.ret \"err\"] [.ret \"ok\"]")
		}
		return append(pre, ".ret \"err\"")
	case *ast.IfStmt:
		var pre []string
		if s.Init != nil {
			pre = t.stmt(s.Init)
		}
		if t.v2 {
			pre = append(pre, t.hoistHelpers(s.Cond)...)
		}
		c := t.cond(s.Cond)
		if s.Else == nil {
			return append(pre, fmt.Sprintf(".ifThen (%s) %s", c, t.block(s.Body.List)))
		}
		var els string
		switch e := s.Else.(type) {
		case *ast.BlockStmt:
			els = t.block(e.List)
		case *ast.IfStmt:
			els = "[" + strings.Join(t.stmt(e), ", ") + "]"
		default:
			return unk
		}
		return append(pre, fmt.Sprintf(".ifElse (%s) %s %s", c, t.block(s.Body.List), els))
	case *ast.SwitchStmt:
		if s.Init != nil {
			return unk
		}
		if s.Tag == nil {
			// tagless switch = if / else-if chain (default wherever it stands)
			var def *ast.CaseClause
			var cases []*ast.CaseClause
			for _, cc := range s.Body.List {
				c := cc.(*ast.CaseClause)
				if c.List == nil {
					def = c
				} else {
					cases = append(cases, c)
				}
			}
			res := "[]"
			if def != nil {
				res = t.block(def.Body)
			}
			for i := len(cases) - 1; i >= 0; i-- {
				cond := ""
				for j := len(cases[i].List) - 1; j >= 0; j-- {
					x := t.cond(cases[i].List[j])
					if cond == "" {
						cond = x
					} else {
						cond = fmt.Sprintf(".or (%s) (%s)", x, cond)
					}
				}
				res = fmt.Sprintf("[.ifElse (%s) %s %s]", cond, t.block(cases[i].Body), res)
			}
			return []string{strings.TrimSuffix(strings.TrimPrefix(res, "["), "]")}
		}
		if t.v2 {
			if r, ok := t.stringSwitch(s); ok {
				return r
			}
		}
		tag, ok := t.atom(s.Tag)
		if !ok {
			return unk
		}
		var cases []string
		def := "[]"
		for _, cc := range s.Body.List {
			c := cc.(*ast.CaseClause)
			if c.List == nil {
				def = t.block(c.Body)
				continue
			}
			var vals []string
			for _, e := range c.List {
				v, ok := t.ct.eval(e, 0)
				if !ok {
					return unk
				}
				vals = append(vals, leanInt(v))
			}
			cases = append(cases, fmt.Sprintf("([%s], %s)", strings.Join(vals, ", "), t.block(c.Body)))
		}
		return []string{fmt.Sprintf(".switchOn %s [%s] %s", leanStr(tag), strings.Join(cases, ", "), def)}
	case *ast.ForStmt:
		if s.Init == nil && s.Cond == nil && s.Post == nil {
			// `for { body }`: the body is the program; falling off its end is the next iteration
			var out []string
			for _, x := range s.Body.List {
				out = append(out, t.stmt(x)...)
			}
			return append(out, ".opaque \"next iteration\"")
		}
		if s.Init == nil && s.Cond != nil && s.Post == nil {
			// `for cond { body }`: one unrolling — if the condition holds the body runs and falling off its end is the
			// next iteration; otherwise evaluation goes on behind the loop
			var out []string
			for _, x := range s.Body.List {
				out = append(out, t.stmt(x)...)
			}
			out = append(out, ".opaque \"next iteration\"")
			return []string{fmt.Sprintf(".ifThen (%s) [%s]", t.cond(s.Cond), strings.Join(out, ", "))}
		}
		if t.v2 {
			// `for i := 0; i < len(xs); i++ { … xs[i] … }` is `for _, x := range xs`
			if xs, iv, ok := indexLoop(s); ok {
				t.defs[iv] = "idx(" + t.normExpr(xs) + ")"
				var out []string
				for _, x := range s.Body.List {
					out = append(out, t.stmt(x)...)
				}
				out = append(out, ".opaque \"next iteration\"")
				return []string{fmt.Sprintf(".ifThen (.v %s) [%s]", leanStr("more("+t.normExpr(xs)+")"), strings.Join(out, ", "))}
			}
		}
		return []string{".opaque \"loop\""}
	case *ast.RangeStmt:
		if t.v2 {
			if id, ok := s.Value.(*ast.Ident); ok && id.Name != "_" {
				t.defs[id.Name] = "elem(" + t.normExpr(s.X) + ")"
			}
			// one unrolling: if there is a further element the body runs for it, and falling off its end is the next iteration
			var out []string
			for _, x := range s.Body.List {
				out = append(out, t.stmt(x)...)
			}
			out = append(out, ".opaque \"next iteration\"")
			return []string{fmt.Sprintf(".ifThen (.v %s) [%s]", leanStr("more("+t.normExpr(s.X)+")"), strings.Join(out, ", "))}
		}
		return []string{".opaque \"loop\""}
	case *ast.SelectStmt:
		return []string{".opaque \"select\""}
	case *ast.DeferStmt:
		if t.v2 {
			if a, ok := t.extAct(s.Call, "defer "); ok {
				return []string{a}
			}
			if name, ok := t.isLocalCall(s.Call); ok {
				return []string{".act " + leanStr("defer "+name)}
			}
		}
		return []string{".skip"}
	case *ast.GoStmt:
		return []string{".act \"go\""}
	case *ast.ExprStmt:
		if a := t.callActs(s.X); a != nil {
			return a
		}
		return []string{".skip"}
	case *ast.AssignStmt:
		if t.v2 {
			return t.assignV2(s)
		}
		var out []string
		for _, r := range s.Rhs {
			acts := t.callActs(r)
			// `…, v := helper(…)`: the helper's error / boolean result decides v!=nil / v
			if len(acts) == 1 && strings.HasPrefix(acts[0], ".scope \"\" ") && len(s.Rhs) == 1 {
				if id, ok := s.Lhs[len(s.Lhs)-1].(*ast.Ident); ok && id.Name != "_" {
					acts[0] = ".scope " + leanStr(id.Name) + acts[0][len(".scope \"\""):]
				}
			}
			out = append(out, acts...)
		}
		// an assignment to a flag of the connection is an action of its own; an assignment to a tracked boolean
		// variable (the bits of the reused write header) updates the evaluator's store
		for i, l := range s.Lhs {
			if sel, ok := l.(*ast.SelectorExpr); ok {
				if a, ok := t.atom(sel); ok && guardFlags[a] {
					out = append(out, ".act "+leanStr("set "+a))
				}
				if a, ok := t.atom(sel); ok && guardBoolVars[a] && len(s.Lhs) == len(s.Rhs) && (s.Tok == token.ASSIGN) {
					out = append(out, fmt.Sprintf(".assign %s (%s)", leanStr(a), t.cond(s.Rhs[i])))
				}
			}
		}
		if len(s.Lhs) == len(s.Rhs) {
			for i, l := range s.Lhs {
				id, ok := l.(*ast.Ident)
				if !ok || id.Name == "_" {
					continue
				}
				if isBoolExpr(s.Rhs[i]) {
					// a local boolean variable
					out = append(out, fmt.Sprintf(".assign %s (%s)", leanStr(id.Name), t.cond(s.Rhs[i])))
				} else if isErrCtor(s.Rhs[i]) {
					out = append(out, fmt.Sprintf(".assign %s (.tt)", leanStr(id.Name+"!=nil")))
				}
			}
		}
		if out == nil {
			return []string{".skip"}
		}
		return out
	case *ast.DeclStmt:
		if gd, ok := s.Decl.(*ast.GenDecl); ok && t.v2 && gd.Tok == token.CONST {
			for _, sp := range gd.Specs {
				if vs, ok := sp.(*ast.ValueSpec); ok && len(vs.Names) == len(vs.Values) {
					for i, n := range vs.Names {
						t.defs[n.Name] = t.normExpr(vs.Values[i])
						t.nasg[n.Name] = 1
					}
				}
			}
		}
		return []string{".skip"}
	case *ast.IncDecStmt, *ast.EmptyStmt:
		return []string{".skip"}
	case *ast.BlockStmt:
		var out []string
		for _, x := range s.List {
			out = append(out, t.stmt(x)...)
		}
		return out
	case *ast.BranchStmt:
		if s.Tok == token.CONTINUE && s.Label == nil {
			return []string{".opaque \"next iteration\""}
		}
	}
	return unk
}

var guardFlags = map[string]bool{"closeSent": true, "peerClosed": true, "closing": true, "msgReader.fin": true, "closed": true, "flate": true, "opcode": true}

var guardBoolVars = map[string]bool{"writeHeader.rsv1": true, "writeHeader.fin": true, "writeHeader.masked": true}

var guardFuncs = []string{
	"Conn.readRSV1Illegal", "Conn.readLoop", "msgReader.flateContextTakeover", "msgWriter.flateContextTakeover",
	"Conn.writeFrame", "Conn.reader", "msgReader.read", "Conn.handleControl", "msgWriter.Write", "msgWriter.Close",
}

func genGuards(p *pkgSrc) (string, error) {
	ct := evalConsts(p)
	var sb strings.Builder
	sb.WriteString("import WS.Model.Guard\n-- GENERATED by /verif/extract from /repo/read.go and /repo/write.go; do not edit.\nnamespace WS.Gen.Guards\nopen WS.Model.Guard\n\n")
	names := append([]string{}, guardFuncs...)
	sort.Strings(names)
	for _, fn := range names {
		fd := p.funcs[fn]
		ident := leanIdent(strings.ReplaceAll(fn, ".", "_"))
		sb.WriteString(fmt.Sprintf("def %s : GProg :=\n  ", ident))
		if fd == nil || fd.Body == nil {
			sb.WriteString("[.unknown \"function not found\"]\n\n")
			continue
		}
		t := &guardTr{p: p, ct: ct, recv: map[string]bool{}, fd: fd}
		if fd.Recv != nil && len(fd.Recv.List) == 1 && len(fd.Recv.List[0].Names) == 1 {
			t.recv[fd.Recv.List[0].Names[0].Name] = true
		}
		if fd.Type.Results != nil && len(fd.Type.Results.List) == 1 {
			if id, ok := fd.Type.Results.List[0].Type.(*ast.Ident); ok && id.Name == "bool" {
				t.boolFn = true
			}
		}
		sb.WriteString(t.block(fd.Body.List))
		sb.WriteString("\n\n")
	}
	sb.WriteString("end WS.Gen.Guards\n")
	return sb.String(), nil
}

// indexLoop recognises `for i := 0; i < len(xs); i++`.
func indexLoop(s *ast.ForStmt) (ast.Expr, string, bool) {
	as, ok := s.Init.(*ast.AssignStmt)
	if !ok || len(as.Lhs) != 1 || len(as.Rhs) != 1 {
		return nil, "", false
	}
	iv, ok := as.Lhs[0].(*ast.Ident)
	if !ok {
		return nil, "", false
	}
	if bl, ok := as.Rhs[0].(*ast.BasicLit); !ok || bl.Value != "0" {
		return nil, "", false
	}
	c, ok := s.Cond.(*ast.BinaryExpr)
	if !ok || c.Op != token.LSS {
		return nil, "", false
	}
	if id, ok := c.X.(*ast.Ident); !ok || id.Name != iv.Name {
		return nil, "", false
	}
	call, ok := c.Y.(*ast.CallExpr)
	if !ok || len(call.Args) != 1 {
		return nil, "", false
	}
	if f, ok := call.Fun.(*ast.Ident); !ok || f.Name != "len" {
		return nil, "", false
	}
	if inc, ok := s.Post.(*ast.IncDecStmt); !ok || inc.Tok != token.INC {
		return nil, "", false
	}
	return call.Args[0], iv.Name, true
}

// decides: the function has no result, or an error / boolean result — something a caller can branch on.
func decides(fd *ast.FuncDecl) bool {
	if fd.Type.Results == nil || len(fd.Type.Results.List) == 0 {
		return true
	}
	for _, f := range fd.Type.Results.List {
		if id, ok := f.Type.(*ast.Ident); ok && (id.Name == "error" || id.Name == "bool") {
			return true
		}
	}
	return false
}

// isPureHelper: a uniquely named function of the package that returns values but neither an error nor a boolean.
func (t *guardTr) isPureHelper(c *ast.CallExpr) bool {
	var sel string
	switch f := c.Fun.(type) {
	case *ast.Ident:
		sel = f.Name
	case *ast.SelectorExpr:
		sel = f.Sel.Name
	default:
		return false
	}
	var cands []*ast.FuncDecl
	for k, fd := range t.p.funcs {
		if k == sel || strings.HasSuffix(k, "."+sel) {
			cands = append(cands, fd)
		}
	}
	return len(cands) == 1 && cands[0].Body != nil && !decides(cands[0])
}

// hoistHelpers renders boolean helpers of the package that a condition calls in front of the `if`, each deciding a
// temporary atom the condition then reads.
func (t *guardTr) hoistHelpers(e ast.Expr) []string {
	var out []string
	ast.Inspect(e, func(n ast.Node) bool {
		c, ok := n.(*ast.CallExpr)
		if !ok {
			return true
		}
		if _, isLit := c.Fun.(*ast.FuncLit); isLit {
			return false
		}
		name, ok := t.isLocalCall(c)
		if !ok || len(c.Args) == 0 {
			return true
		}
		fd := t.helperDecl(c, name)
		if fd == nil || fd.Type.Results == nil || len(fd.Type.Results.List) != 1 || hasLoop(fd) {
			return true
		}
		if id, ok := fd.Type.Results.List[0].Type.(*ast.Ident); !ok || id.Name != "bool" {
			return true
		}
		if t.hoisted == nil {
			t.hoisted = map[*ast.CallExpr]string{}
		}
		if t.nhoist == nil {
			t.nhoist = new(int)
		}
		*t.nhoist++
		h := fmt.Sprintf("$h%d", *t.nhoist)
		t.hoisted[c] = h
		out = append(out, fmt.Sprintf(".scope %s %s", leanStr(h), t.inlineHelper(fd, c)))
		return false
	})
	return out
}

func hasLoop(fd *ast.FuncDecl) bool {
	found := false
	ast.Inspect(fd.Body, func(n ast.Node) bool {
		switch n.(type) {
		case *ast.ForStmt, *ast.RangeStmt:
			found = true
		}
		return !found
	})
	return found
}
