package main

import (
	"encoding/json"
	"fmt"
	"go/ast"
	"go/token"
	"os"
	"sort"
	"strings"
)

// genSkeleton extracts, per function, the set of synchronisation primitives it contains (locks,
// timeout-slot hand-offs, transport operations, flags, goroutine starts, channel closes/receives and
// calls to other functions of the skeleton). WS/Props/CIRTie.lean demands that this equals the
// set the hand-written CIR skeleton (/verif/cir/conn_cir.py) attributes to the same function.

var skelFuncs = map[string]bool{
	"Conn.close": true, "Conn.timeoutLoop": true, "Conn.ping": true, "Conn.reader": true, "Conn.readLoop": true,
	"Conn.readFrameHeader": true, "Conn.readFramePayload": true, "Conn.handleControl": true, "Conn.readUnlock": true,
	"msgReader.Read": true, "msgReader.read": true, "msgReader.close": true, "limitReader.Read": true,
	"Conn.CloseRead": true, "Conn.write": true, "Conn.writer": true, "msgWriter.reset": true, "msgWriter.Write": true,
	"msgWriter.write": true, "msgWriter.Close": true, "msgWriter.close": true, "Conn.writeControl": true,
	"Conn.writeFrame": true, "Conn.writeFramePayload": true, "Conn.writeError": true, "Conn.Close": true, "Conn.CloseNow": true,
	"Conn.closeHandshake": true, "Conn.writeClose": true, "Conn.waitCloseHandshake": true, "Conn.discardPayload": true,
	"Conn.waitGoroutines": true, "Conn.casClosing": true, "mu.lock": true, "mu.unlock": true, "mu.forceLock": true, "mu.tryLock": true,
	"newConn": true, "Conn.Reader": true, "Conn.Read": true, "Conn.Write": true, "Conn.Writer": true, "Conn.Ping": true,
}

// callees that are reported as `call X`
var skelCallees = map[string]string{
	"c.close": "close", "mr.c.close": "close", "c.readUnlock": "readUnlock", "mr.c.readUnlock": "readUnlock",
	"c.readLoop": "readLoop", "mr.c.readLoop": "readLoop", "c.readFrameHeader": "readFrameHeader",
	"c.readFramePayload": "readFramePayload", "mr.c.readFramePayload": "readFramePayload", "c.handleControl": "handleControl",
	"c.writeControl": "writeControl", "c.writeFrame": "writeFrame", "mw.c.writeFrame": "writeFrame", "c.writeClose": "writeClose",
	"c.writeError": "writeError", "mr.c.writeError": "writeError", "lr.c.writeError": "writeError",
	"c.closeHandshake": "closeHandshake", "c.waitCloseHandshake": "waitCloseHandshake", "c.waitGoroutines": "waitGoroutines",
	"c.discardPayload": "discardPayload", "c.reader": "reader", "c.Reader": "Reader", "c.Close": "Close", "c.casClosing": "casClosing",
	"c.msgWriter.close": "msgWriter.close", "c.msgReader.close": "msgReader.close", "c.writeFramePayload": "writeFramePayload",
	"mr.limitReader.Read": "limitReader.Read", "lr.r.Read": "msgReader.read", "c.msgWriter.reset": "msgWriter.reset", "c.writer": "writer",
	"c.write": "write", "c.ping": "ping", "mw.write": "msgWriter.write", "mw.flateWriter.Write": "msgWriter.write", "mw.flateWriter.Flush": "msgWriter.write",
	"mw.Write": "msgWriter.Write", "mw.Close": "msgWriter.Close", "m.unlock": "mu.unlock", "c.timeoutLoop": "timeoutLoop",
	"writeFrameHeader": "wr header", "readFrameHeader": "io read", "io.ReadFull": "io read",
}

func lockName(recv string) string {
	switch {
	case strings.HasSuffix(recv, "closeMu"):
		return "closeMu"
	case strings.HasSuffix(recv, "readMu") && strings.HasPrefix(recv, "nc."):
		return "netConn.readMu"
	case strings.HasSuffix(recv, "writeMu") && strings.HasPrefix(recv, "nc."):
		return "netConn.writeMu"
	case strings.HasSuffix(recv, "readMu"):
		return "readMu"
	case strings.HasSuffix(recv, "writeFrameMu"):
		return "writeFrameMu"
	case recv == "mw.mu" || strings.HasSuffix(recv, "msgWriter.mu"):
		return "msgWriter.mu"
	case recv == "mw.writeMu" || strings.HasSuffix(recv, "msgWriter.writeMu"):
		return "msgWriter.writeMu"
	case recv == "m":
		return "self"
	case strings.HasSuffix(recv, "activePingsMu") || strings.HasSuffix(recv, "closeReadMu"):
		return "" // plain sync.Mutex around a map / a field: not part of the skeleton
	}
	return "?" + recv
}

type skelWalker struct {
	p    *pkgSrc
	tags map[string]bool
	seq  *[]string // when set, every tag is also appended here in source order
	// inl, when set, renders the body of an inlined helper in place (ordered mode); otherwise the walker
	// walks the helper's body itself (set mode)
	inl   func(fd *ast.FuncDecl, c *ast.CallExpr, deferred bool)
	depth int
}

// helperOf resolves a call to a helper of the package that is not itself a function of the skeleton and
// is not reported as a `call X`: its synchronisation primitives count as the caller's (a primitive moved
// into a new helper, or a helper's body moved into its only caller, is the same skeleton).
func (w *skelWalker) helperOf(c *ast.CallExpr) *ast.FuncDecl {
	var cands []*ast.FuncDecl
	switch f := c.Fun.(type) {
	case *ast.Ident:
		if fd, ok := w.p.funcs[f.Name]; ok && !skelFuncs[f.Name] {
			cands = append(cands, fd)
		}
	case *ast.SelectorExpr:
		for k, fd := range w.p.funcs {
			if strings.HasSuffix(k, "."+f.Sel.Name) && !skelFuncs[k] {
				cands = append(cands, fd)
			} else if strings.HasSuffix(k, "."+f.Sel.Name) {
				return nil // a skeleton function of that name exists: not ours to guess
			}
		}
	}
	if len(cands) != 1 || cands[0].Body == nil {
		return nil
	}
	return cands[0]
}

// hasPrimitive: does the helper's body (helpers it calls included) hold a synchronisation primitive?
func (w *skelWalker) hasPrimitive(fd *ast.FuncDecl) bool {
	w2 := &skelWalker{p: w.p, tags: map[string]bool{}, depth: w.depth + 1}
	w2.walk(fd.Body, funcKey(fd))
	return len(w2.tags) > 0
}

func (w *skelWalker) tag(s string, deferred bool) {
	if s == "" {
		return
	}
	if deferred {
		s = "defer-" + s
	}
	w.tags[s] = true
	if w.seq != nil {
		if n := len(*w.seq); n == 0 || (*w.seq)[n-1] != s {
			*w.seq = append(*w.seq, s)
		}
	}
}

func (w *skelWalker) call(c *ast.CallExpr, deferred bool) {
	fun := w.p.str(c.Fun)
	if sel, ok := c.Fun.(*ast.SelectorExpr); ok {
		recv := w.p.str(sel.X)
		switch sel.Sel.Name {
		case "lock":
			if n := lockName(recv); n != "" {
				w.tag("lock "+n, deferred)
			}
			return
		case "forceLock", "Lock":
			if n := lockName(recv); n != "" {
				w.tag("forceLock "+n, deferred)
			}
			return
		case "tryLock":
			if n := lockName(recv); n != "" {
				w.tag("tryLock "+n, deferred)
			}
			return
		case "unlock", "Unlock":
			if n := lockName(recv); n != "" {
				w.tag("unlock "+n, deferred)
			}
			return
		}
	}
	switch fun {
	case "close":
		if len(c.Args) == 1 {
			switch w.p.str(c.Args[0]) {
			case "c.closed":
				w.tag("set closed", deferred)
			case "c.timeoutLoopDone":
				w.tag("signal timeoutLoopDone", deferred)
			case "c.closeReadDone":
				w.tag("signal closeReadDone", deferred)
			}
		}
		return
	case "c.isClosed":
		w.tag("test closed", deferred)
		return
	case "c.rwc.Close":
		w.tag("close transport", deferred)
		return
	case "c.bw.Flush":
		w.tag("wr flush", deferred)
		return
	case "c.bw.Write", "c.bw.WriteByte":
		w.tag("wr payload", deferred)
		return
	}
	if fun == "io.ReadFull" && (len(c.Args) == 0 || w.p.str(c.Args[0]) != "c.br") {
		return
	}
	if name, ok := skelCallees[fun]; ok {
		if strings.HasPrefix(name, "wr ") || strings.HasPrefix(name, "io ") {
			w.tag(name, deferred)
		} else {
			w.tag("call "+name, deferred)
		}
		return
	}
	if w.depth >= 3 {
		return
	}
	if fd := w.helperOf(c); fd != nil && w.hasPrimitive(fd) {
		if w.inl != nil {
			w.inl(fd, c, deferred)
			return
		}
		w.depth++
		w.walk(fd.Body, funcKey(fd))
		w.depth--
	}
}

func (w *skelWalker) walk(n ast.Node, fnName string) {
	ast.Inspect(n, func(x ast.Node) bool {
		switch s := x.(type) {
		case *ast.FuncLit:
			return false // handled by the caller where relevant
		case *ast.DeferStmt:
			if fl, ok := s.Call.Fun.(*ast.FuncLit); ok {
				// deferred closure: its body runs at return; walk it (not marked deferred individually)
				w.walk(fl.Body, fnName)
				return false
			}
			w.call(s.Call, true)
			for _, a := range s.Call.Args {
				w.walk(a, fnName)
			}
			return false
		case *ast.GoStmt:
			if body := goBody(w.p, s); body != nil {
				// a goroutine that is no function of the skeleton (a literal, or a method it was moved into): the
				// anonymous goroutine of the enclosing function
				w.tag("spawn "+strings.TrimPrefix(fnName, "Conn.")+".func1", false)
			} else {
				w.tag("spawn "+strings.TrimPrefix(w.p.str(s.Call.Fun), "c."), false)
			}
			return false
		case *ast.CallExpr:
			w.call(s, false)
		case *ast.SendStmt:
			ch := w.p.str(s.Chan)
			val := w.p.str(s.Value)
			own := "own"
			if val == "context.Background()" {
				own = "bg"
			}
			switch ch {
			case "c.readTimeout":
				w.tag("arm read "+own, false)
			case "c.writeTimeout":
				w.tag("arm write "+own, false)
			case "m.ch":
				w.tag("send ch", false)
			}
		case *ast.UnaryExpr:
			if s.Op == token.ARROW {
				switch w.p.str(s.X) {
				case "c.closed", "m.c.closed":
					w.tag("recv closed", false)
				case "c.timeoutLoopDone":
					w.tag("await timeoutLoopDone", false)
				case "c.closeReadDone":
					w.tag("await closeReadDone", false)
				case "t.C":
					w.tag("timer", false)
				case "m.ch":
					w.tag("recv ch", false)
				case "c.writeTimeout", "c.readTimeout":
					w.tag("slot received", false)
				}
			}
		case *ast.AssignStmt:
			for _, l := range s.Lhs {
				switch w.p.str(l) {
				case "c.closeSent":
					w.tag("set closeSent", false)
				case "c.peerClosed":
					w.tag("set peerClosed", false)
				case "c.closing":
					w.tag("set closing", false)
				case "c.closeReadCtx":
					w.tag("set closeRead", false)
				}
			}
			for _, r := range s.Rhs {
				w.reads(r)
			}
			return true
		case *ast.IfStmt:
			w.reads(s.Cond)
		case *ast.BinaryExpr:
			w.reads(s)
		}
		return true
	})
}

// reads: flag reads inside an expression
func (w *skelWalker) reads(e ast.Expr) {
	if e == nil {
		return
	}
	ast.Inspect(e, func(x ast.Node) bool {
		if _, ok := x.(*ast.FuncLit); ok {
			return false
		}
		if sel, ok := x.(*ast.SelectorExpr); ok {
			switch w.p.str(sel) {
			case "c.closeSent":
				w.tag("test closeSent", false)
			case "c.peerClosed":
				w.tag("test peerClosed", false)
			case "c.closing":
				w.tag("test closing", false)
			case "c.closeReadCtx":
				w.tag("test closeRead", false)
			}
		}
		return true
	})
}

// ---- ordered, structured skeleton ----------------------------------------------------------------
// The same primitives in source order, with the control structure that contains them: `if{ … }else{ … }`,
// `for{ … }`, `select{ case: … }`, `switch{ case: … }`, `defer{ … }` (deferred closure), `return`.
// Structures that contain neither a primitive nor a return are dropped, so code that does not
// synchronise can change freely.

type ordWalker struct {
	p     *pkgSrc
	fn    string
	out   []string
	depth int
	// inReturn: the expression being rendered is the result of a return statement: the returns of a helper
	// inlined there are returns of the caller
	inReturn bool
	inlined  bool
	// knowledge plumbing for the path languages: the scope prefix of condition atoms (each inlined helper body has its
	// own), what the results of the helper being inlined are assigned to, the call whose results the pending assignment
	// receives, and the atoms standing for boolean helper results used in the condition being rendered
	scope          string
	nInline        int
	retTargets     []string
	pendingCall    *ast.CallExpr
	pendingTargets []string
	condCalls      map[*ast.CallExpr]string
}

var goldenPath = "/verif/cir/skeleton_ordered.json"

var structTok = map[string]bool{"if{": true, "}else{": true, "}": true, "for{": true, "loop{": true, "select{": true, "switch{": true, "case:": true, "default:": true, "defer{": true, "inline{": true}

func (o *ordWalker) flat(n ast.Node) {
	if n == nil {
		return
	}
	w := &skelWalker{p: o.p, tags: map[string]bool{}, seq: &o.out, depth: o.depth}
	w.inl = func(fd *ast.FuncDecl, c *ast.CallExpr, deferred bool) {
		o.depth++
		inRet := o.inReturn
		if deferred {
			o.inReturn = false
			m := o.open("defer{")
			o.stmt(fd.Body)
			if n := len(o.out); n > 0 && o.out[n-1] == "return" {
				o.out = o.out[:n-1]
			}
			o.close(m)
		} else if inRet {
			o.inReturn = false
			o.stmt(fd.Body) // `return helper(...)`: the helper's returns are the caller's
			o.inlined = true
		} else {
			// a helper rendered in place of its call: its returns end the helper, not the caller; its variables live
			// in a scope of their own; what it returns is what the caller's variables (or condition) receive
			o.nInline++
			id := fmt.Sprintf("i%d:", o.nInline)
			var targets []string
			if c != nil && c == o.pendingCall {
				targets = o.pendingTargets
			} else if c != nil && o.condCalls != nil {
				o.condCalls[c] = id + "ret"
				targets = []string{"=" + id + "ret"}
			}
			savedScope, savedT, savedCond, savedPC := o.scope, o.retTargets, o.condCalls, o.pendingCall
			o.scope, o.retTargets, o.condCalls, o.pendingCall = id, targets, nil, nil
			m := o.open("inline{")
			o.stmt(fd.Body)
			if n := len(o.out); n > 0 && o.out[n-1] == "return" {
				o.out = o.out[:n-1]
			}
			o.close(m)
			o.scope, o.retTargets, o.condCalls, o.pendingCall = savedScope, savedT, savedCond, savedPC
			o.inlined = true
		}
		o.inReturn = inRet
		o.depth--
	}
	w.walk(n, o.fn)
}

func (o *ordWalker) open(tok string) int {
	o.out = append(o.out, tok)
	return len(o.out) - 1
}

// close ends the structure opened at mark; drops it when it holds nothing but structure tokens.
func (o *ordWalker) close(mark int) {
	for _, t := range o.out[mark:] {
		if !structTok[t] && !knowledgeTok(t) {
			o.out = append(o.out, "}")
			return
		}
	}
	o.out = o.out[:mark]
}

func (o *ordWalker) stmts(l []ast.Stmt) {
	for _, s := range l {
		o.stmt(s)
	}
}

func (o *ordWalker) stmt(s ast.Stmt) {
	switch s := s.(type) {
	case nil:
	case *ast.BlockStmt:
		o.stmts(s.List)
	case *ast.LabeledStmt:
		o.stmt(s.Stmt)
	case *ast.IfStmt:
		o.stmt(s.Init)
		w := &skelWalker{p: o.p, tags: map[string]bool{}, seq: &o.out}
		w.reads(s.Cond)
		o.condCalls = map[*ast.CallExpr]string{}
		o.flat(s.Cond)
		o.out = append(o.out, "cond:"+condExpr(o.p, s.Cond, o.scope, o.condCalls))
		o.condCalls = nil
		m := o.open("if{")
		o.stmt(s.Body)
		if s.Else != nil {
			e := o.open("}else{")
			o.stmt(s.Else)
			if e == len(o.out)-1 {
				o.out = o.out[:e]
			}
		}
		o.close(m)
	case *ast.ForStmt:
		o.stmt(s.Init)
		tok := "for{"
		if s.Cond == nil {
			tok = "loop{" // left only by break / return
		}
		m := o.open(tok)
		o.flat(s.Cond)
		if s.Cond != nil {
			o.out = append(o.out, "loopcond:"+condExpr(o.p, s.Cond, o.scope, nil))
		}
		o.stmt(s.Body)
		o.stmt(s.Post)
		o.close(m)
	case *ast.RangeStmt:
		o.flat(s.X)
		m := o.open("for{")
		o.stmt(s.Body)
		o.close(m)
	case *ast.SelectStmt:
		m := o.open("select{")
		for _, c := range s.Body.List {
			cc := c.(*ast.CommClause)
			ctok := "case:"
			if cc.Comm == nil {
				ctok = "default:"
			}
			k := o.open(ctok)
			o.stmt(cc.Comm)
			o.stmts(cc.Body)
			if k == len(o.out)-1 && cc.Comm != nil {
				o.out = o.out[:k] // a case without primitives (e.g. <-ctx.Done() with an empty body)
				o.out = append(o.out, ctok)
			}
		}
		o.close(m)
	case *ast.SwitchStmt:
		o.stmt(s.Init)
		o.flat(s.Tag)
		m := o.open("switch{")
		for _, c := range s.Body.List {
			cc := c.(*ast.CaseClause)
			ctok := "case:"
			if cc.List == nil {
				ctok = "default:"
			}
			o.open(ctok)
			for _, e := range cc.List {
				o.flat(e)
			}
			o.stmts(cc.Body)
		}
		o.close(m)
	case *ast.TypeSwitchStmt:
		m := o.open("switch{")
		for _, c := range s.Body.List {
			cc := c.(*ast.CaseClause)
			ctok := "case:"
			if cc.List == nil {
				ctok = "default:"
			}
			o.open(ctok)
			o.stmts(cc.Body)
		}
		o.close(m)
	case *ast.ReturnStmt:
		saved, savedInl := o.inReturn, o.inlined
		o.inlined = false
		for _, e := range s.Results {
			_, isCall := e.(*ast.CallExpr)
			o.inReturn = isCall
			o.flat(e)
		}
		o.inReturn = saved
		if len(o.retTargets) > 0 && len(o.retTargets) == len(s.Results) {
			for i, r := range s.Results {
				o.out = append(o.out, valueTokens(o.p, o.retTargets[i], r, o.scope)...)
			}
		}
		if n := len(o.out); !(o.inlined && n > 0 && o.out[n-1] == "return") {
			o.out = append(o.out, "return")
		}
		o.inlined = savedInl
	case *ast.DeferStmt:
		if fl, ok := s.Call.Fun.(*ast.FuncLit); ok {
			m := o.open("defer{")
			o.stmt(fl.Body)
			o.close(m)
			return
		}
		o.flat(s)
	case *ast.GoStmt:
		o.flat(s)
	case *ast.AssignStmt:
		var targets []string
		for _, l := range s.Lhs {
			n := atomName(o.p, l)
			if n == "_" {
				n = ""
			}
			if n != "" {
				n = o.scope + n
				o.out = append(o.out, "kill:"+n)
			}
			targets = append(targets, n)
		}
		if len(s.Rhs) == 1 {
			if c, ok := s.Rhs[0].(*ast.CallExpr); ok {
				o.pendingCall, o.pendingTargets = c, targets
			}
		}
		o.flat(s)
		o.pendingCall, o.pendingTargets = nil, nil
		if len(s.Lhs) == len(s.Rhs) {
			for i, r := range s.Rhs {
				o.out = append(o.out, valueTokens(o.p, targets[i], r, o.scope)...)
			}
		}
	case *ast.IncDecStmt:
		o.flat(s)
		if n := atomName(o.p, s.X); n != "" {
			o.out = append(o.out, "kill:"+o.scope+n)
		}
	case *ast.BranchStmt:
		switch s.Tok {
		case token.BREAK:
			o.out = append(o.out, "break")
		case token.CONTINUE:
			o.out = append(o.out, "continue")
		}
	default:
		o.flat(s)
	}
}

// normalise removes two shapes that differ only in how a primitive-free return is written:
//
//	if{ return } return   ≡  return          (`if err != nil { return n, err }; return n, nil` vs `return n, err`)
//	if{ if{ return } }    ≡  if{ return }    (a conditional return under two conditions vs one)
func normalise(t []string) []string {
	splice := func(t []string, i, n int, repl ...string) []string {
		out := append([]string{}, t[:i]...)
		out = append(out, repl...)
		return append(out, t[i+n:]...)
	}
	for changed := true; changed; {
		changed = false
		for i := 0; i+3 < len(t); i++ {
			if t[i] == "if{" && t[i+1] == "return" && t[i+2] == "}" && t[i+3] == "return" {
				t = splice(t, i, 4, "return")
				changed = true
				break
			}
		}
		for i := 0; i+4 < len(t); i++ {
			if t[i] == "if{" && t[i+1] == "if{" && t[i+2] == "return" && t[i+3] == "}" && t[i+4] == "}" {
				t = splice(t, i, 5, "if{", "return", "}")
				changed = true
				break
			}
		}
	}
	return t
}

func genSkeletonOrdered(p *pkgSrc) map[string][]string {
	res := map[string][]string{}
	defer func() {
		for k, v := range res {
			res[k] = normalise(v)
		}
	}()
	for name, fd := range p.funcs {
		if !skelFuncs[name] || fd.Body == nil {
			continue
		}
		o := &ordWalker{p: p, fn: name}
		o.stmt(fd.Body)
		res[name] = o.out
		if name == "Conn.CloseRead" {
			ast.Inspect(fd.Body, func(x ast.Node) bool {
				if g, ok := x.(*ast.GoStmt); ok {
					if body := goBody(p, g); body != nil {
						o2 := &ordWalker{p: p, fn: name + ".func1"}
						o2.stmt(body)
						res[name+".func1"] = o2.out
					}
				}
				return true
			})
		}
	}
	return res
}

func genSkeleton(p *pkgSrc) (string, error) {
	res := map[string][]string{}
	for name, fd := range p.funcs {
		if !skelFuncs[name] || fd.Body == nil {
			continue
		}
		w := &skelWalker{p: p, tags: map[string]bool{}}
		// an assignment on the left-hand side also shows up as a "read" of the selector in ast.Inspect of
		// BinaryExpr only; plain assignments are handled in AssignStmt
		w.walk(fd.Body, name)
		var tags []string
		for t := range w.tags {
			tags = append(tags, t)
		}
		sort.Strings(tags)
		res[name] = tags
		// the goroutine started by CloseRead
		if name == "Conn.CloseRead" {
			ast.Inspect(fd.Body, func(x ast.Node) bool {
				if g, ok := x.(*ast.GoStmt); ok {
					if body := goBody(p, g); body != nil {
						w2 := &skelWalker{p: p, tags: map[string]bool{}}
						w2.walk(body, name+".func1")
						var t2 []string
						for t := range w2.tags {
							t2 = append(t2, t)
						}
						sort.Strings(t2)
						res[name+".func1"] = t2
					}
				}
				return true
			})
		}
	}
	var names []string
	for n := range res {
		names = append(names, n)
	}
	sort.Strings(names)
	var sb strings.Builder
	sb.WriteString("-- GENERATED by /verif/extract (skeleton.go) from conn.go, read.go, write.go, close.go; do not edit.\nnamespace WS.Gen.Skeleton\n\n")
	sb.WriteString("/-- per Go function: the synchronisation primitives found in its body (sorted, distinct). -/\ndef code : List (String × List String) := [\n")
	for i, n := range names {
		var q []string
		for _, t := range res[n] {
			q = append(q, leanStr(t))
		}
		sep := ","
		if i == len(names)-1 {
			sep = ""
		}
		fmt.Fprintf(&sb, "  (%s, [%s])%s\n", leanStr(n), strings.Join(q, ", "), sep)
	}
	sb.WriteString("]\n\n")
	ord := genSkeletonOrdered(p)
	emit := func(doc, name string, keys []string, get func(string) []string) {
		sb.WriteString("/-- " + doc + " -/\ndef " + name + " : List (String × List String) := [\n")
		for i, n := range keys {
			var q []string
			for _, t := range get(n) {
				q = append(q, leanStr(t))
			}
			sep := ","
			if i == len(keys)-1 {
				sep = ""
			}
			fmt.Fprintf(&sb, "  (%s, [%s])%s\n", leanStr(n), strings.Join(q, ", "), sep)
		}
		sb.WriteString("]\n\n")
	}
	emit("per Go function: the language of primitive sequences along its paths from entry to exit, as the canonical minimal DFA of the source's ordered skeleton (paths.go).",
		"ordered", names, func(n string) []string { return pathRows(ord[n]) })
	// the declared side: the committed ordered skeleton the CIR program was written against
	golden := map[string][]string{}
	if b, err := os.ReadFile(goldenPath); err == nil {
		json.Unmarshal(b, &golden)
	}
	var gnames []string
	for n := range golden {
		gnames = append(gnames, n)
	}
	sort.Strings(gnames)
	emit("the committed ordered skeleton (cir/skeleton_ordered.json) as read by the translator.", "declaredTokens", gnames, func(n string) []string { return golden[n] })
	emit("its path languages.", "declared", gnames, func(n string) []string { return pathRows(golden[n]) })
	sb.WriteString("end WS.Gen.Skeleton\n")
	return sb.String(), nil
}

func knowledgeTok(t string) bool {
	for _, p := range []string{"cond:", "loopcond:", "kill:", "set:", "copy:"} {
		if strings.HasPrefix(t, p) {
			return true
		}
	}
	return false
}

// atomName: the name of a variable or field chain as used in condition atoms ("" if the expression is neither).
func atomName(p *pkgSrc, e ast.Expr) string {
	switch x := e.(type) {
	case *ast.Ident:
		return x.Name
	case *ast.SelectorExpr:
		if b := atomName(p, x.X); b != "" {
			return b + "." + x.Sel.Name
		}
	case *ast.ParenExpr:
		return atomName(p, x.X)
	}
	return ""
}

// neqAtom: the canonical atom for `a != b` (operands in lexical order).
func neqAtom(a, b string) string {
	if a > b {
		a, b = b, a
	}
	return a + "!=" + b
}

// valueTokens: what is learned about `target` (a scoped variable name; "=atom" for the boolean result of a helper used in
// a condition; "" for nothing) when it receives the value of expression e evaluated in `scope`.
func valueTokens(p *pkgSrc, target string, e ast.Expr, scope string) []string {
	if target == "" {
		return nil
	}
	boolAtom, nilAtom := target, ""
	if strings.HasPrefix(target, "=") {
		boolAtom = target[1:]
	} else {
		nilAtom = neqAtom(target, "nil")
	}
	switch x := e.(type) {
	case *ast.ParenExpr:
		return valueTokens(p, target, x.X, scope)
	case *ast.Ident:
		switch x.Name {
		case "nil":
			if nilAtom != "" {
				return []string{"set:" + nilAtom + "=0"}
			}
		case "true":
			return []string{"set:" + boolAtom + "=1"}
		case "false":
			return []string{"set:" + boolAtom + "=0"}
		default:
			out := []string{"copy:" + boolAtom + "<-" + scope + x.Name}
			if nilAtom != "" {
				out = append(out, "copy:"+nilAtom+"<-"+neqAtom(scope+x.Name, "nil"))
			}
			return out
		}
	case *ast.CallExpr:
		if nilAtom != "" {
			if f := p.str(x.Fun); f == "errors.New" || f == "fmt.Errorf" {
				return []string{"set:" + nilAtom + "=1"}
			}
		}
	}
	return nil
}

// condExpr renders a condition for the path-language computation: `&(a,b)`, `|(a,b)`, `!(a)`, atoms `@name` (a boolean
// variable or field, or the result of a boolean helper rendered in place), `@x!=y` (comparisons in one canonical form: ==
// is the negation of !=, >= of <, > is < swapped), and `*` for anything else (no knowledge). Names carry the scope.
func condExpr(p *pkgSrc, e ast.Expr, scope string, calls map[*ast.CallExpr]string) string {
	operand := func(e ast.Expr) string {
		if n := atomName(p, e); n != "" {
			if n == "nil" || n == "true" || n == "false" {
				return n
			}
			return scope + n
		}
		if b, ok := e.(*ast.BasicLit); ok {
			return b.Value
		}
		if u, ok := e.(*ast.UnaryExpr); ok && u.Op == token.SUB {
			if b, ok := u.X.(*ast.BasicLit); ok {
				return "-" + b.Value
			}
		}
		return ""
	}
	switch x := e.(type) {
	case *ast.ParenExpr:
		return condExpr(p, x.X, scope, calls)
	case *ast.Ident:
		if x.Name == "true" || x.Name == "false" {
			return "*"
		}
		return "@" + scope + x.Name
	case *ast.SelectorExpr:
		if n := atomName(p, x); n != "" {
			return "@" + scope + n
		}
	case *ast.CallExpr:
		if a, ok := calls[x]; ok {
			return "@" + a
		}
	case *ast.UnaryExpr:
		if x.Op == token.NOT {
			return "!(" + condExpr(p, x.X, scope, calls) + ")"
		}
	case *ast.BinaryExpr:
		switch x.Op {
		case token.LAND:
			return "&(" + condExpr(p, x.X, scope, calls) + "," + condExpr(p, x.Y, scope, calls) + ")"
		case token.LOR:
			return "|(" + condExpr(p, x.X, scope, calls) + "," + condExpr(p, x.Y, scope, calls) + ")"
		case token.EQL, token.NEQ, token.LSS, token.GEQ, token.GTR, token.LEQ:
			a, b := operand(x.X), operand(x.Y)
			if a == "" || b == "" {
				return "*"
			}
			switch x.Op {
			case token.NEQ:
				return "@" + neqAtom(a, b)
			case token.EQL:
				return "!(@" + neqAtom(a, b) + ")"
			case token.LSS:
				return "@" + a + "<" + b
			case token.GEQ:
				return "!(@" + a + "<" + b + ")"
			case token.GTR:
				return "@" + b + "<" + a
			case token.LEQ:
				return "!(@" + b + "<" + a + ")"
			}
		}
	}
	return "*"
}

// goBody: the body of the goroutine started by a go statement when it is not a function of the skeleton itself: a function
// literal, or a function / method of the package (the literal moved into a named function).
func goBody(p *pkgSrc, g *ast.GoStmt) *ast.BlockStmt {
	switch f := g.Call.Fun.(type) {
	case *ast.FuncLit:
		return f.Body
	case *ast.Ident:
		if fd, ok := p.funcs[f.Name]; ok && !skelFuncs[f.Name] && fd.Body != nil {
			return fd.Body
		}
	case *ast.SelectorExpr:
		var cands []*ast.FuncDecl
		for k, fd := range p.funcs {
			if strings.HasSuffix(k, "."+f.Sel.Name) {
				if skelFuncs[k] {
					return nil
				}
				cands = append(cands, fd)
			}
		}
		if len(cands) == 1 && cands[0].Body != nil {
			return cands[0].Body
		}
	}
	return nil
}
